"""Random session specifications (workload generator shared by the session-based checks)."""
import random

from . import gen

SYMS = ['BTC-USDT', 'ETH-USDT', 'SOL-USDT']


def random_script(rng: random.Random, exch_type: str, lattice=None, rich=True) -> dict:
    spot = exch_type == 'spot'
    s = {
        'seed': rng.randrange(1 << 30),
        'p_enter': rng.choice([0.05, 0.1, 0.2, 0.4]),
        'sides': 'long' if spot else rng.choice(['long', 'short', 'both', 'both']),
        'entry': rng.choice(['market', 'limit', 'stop', 'ladder', 'mixed', 'mixed']),
        'entry_dist': rng.choice([0.0005, 0.001, 0.002, 0.004]),
        'size_frac': rng.choice([0.05, 0.1, 0.2, 0.3]),
        'qty_dec': rng.choice([2, 3, 4]),
        'exits_in': 'open' if spot else rng.choice(['open', 'go', 'open']),
        'sl': rng.choice([None, 0.002, 0.004, 0.01, 0.02]),
        'tp': rng.choice([None, 0.002, 0.004, 0.01, 0.02]),
        'sl_points': rng.choice([1, 1, 2, 3]),
        'tp_points': rng.choice([1, 1, 2, 3]),
        'sl_oversize': False,
        'p_update': rng.choice([0.0, 0.05, 0.2]) if rich else 0.0,
        'update_kinds': rng.sample(['trail_sl', 'tp_ladder', 'sl_ladder', 'liquidate', 'near_tp'], rng.randint(1, 3)),
        'on_reduced': rng.choice([None, 'be', 'tp_rest']) if rich else None,
        'on_increased': rng.choice([None, 'retarget']),
        'cancel_policy': rng.choice(['always', 'never', 'rnd']),
        'lattice': lattice,
        'observe': 'digest',
    }
    if rich and rng.random() < 0.15:
        s['p_open_liquidate'] = rng.choice([0.2, 0.5])
    if rich and rng.random() < 0.15:
        s['on_reduced'] = 'liquidate'
    if s['sl'] is None and s['tp'] is None:
        s[rng.choice(['sl', 'tp'])] = 0.004
    if lattice:
        # distances must be visible on the lattice
        s['entry_dist'] = rng.choice([0.005, 0.01, 0.02])
        for k in ('sl', 'tp'):
            if s[k]:
                s[k] = rng.choice([0.01, 0.02, 0.03])
    return s


def random_config(rng: random.Random, exch_type=None) -> dict:
    t = exch_type or rng.choice(['futures', 'futures', 'spot'])
    cfg = {'starting_balance': rng.choice([1000, 10000, 50000]), 'fee': rng.choice([0, 0.0002, 0.001, 0.00075]),
           'type': t}
    if t == 'futures':
        cfg['futures_leverage'] = rng.choice([1, 2, 3, 5, 10, 20])
        cfg['futures_leverage_mode'] = 'cross'
    return cfg


def random_session(rng: random.Random, *, minutes=None, fast=None, exch_type=None, nsym=None, tfs=None, warmup=None,
                   data_tfs=None, family=None, rich=True, data_only=False) -> dict:
    cfg = random_config(rng, exch_type)
    nsym = nsym or rng.choice([1, 1, 2])
    tf_choices = tfs or ['1m', '3m', '5m', '15m']
    fam = family or rng.choice(['walk', 'gappy', 'flatty', 'lattice', 'lattice_gappy', 'trend', 'walk', 'gappy'])
    lattice = None
    minutes = minutes or rng.choice([300, 450, 600, 900])
    routes, dr, candles = [], [], {}
    base_seed = rng.randrange(1 << 30)
    if warmup is None:
        warmup = rng.choice([0, 240, 240, 480])
    for i in range(nsym):
        sym = SYMS[i]
        cs = gen.random_spec(random.Random(base_seed + i), minutes + warmup, fam)
        lattice = cs.get('lattice')
        candles[sym] = cs
        routes.append({'symbol': sym, 'timeframe': rng.choice(tf_choices),
                       'script': random_script(rng, cfg['type'], lattice, rich)})
    dts = data_tfs if data_tfs is not None else ['3m', '5m', '15m', '30m', '1h']
    for _ in range(rng.choice([0, 0, 1, 2]) if dts else 0):
        d = {'symbol': rng.choice(list(candles)), 'timeframe': rng.choice(dts)}
        if d not in dr and not any(r['symbol'] == d['symbol'] and r['timeframe'] == d['timeframe'] for r in routes):
            dr.append(d)
    if data_only and dts:
        # a symbol that is never traded: it only appears in data routes (no position, no orders of its own)
        sym = SYMS[nsym]
        candles[sym] = gen.random_spec(random.Random(base_seed + 77), minutes + warmup, fam)
        for tf_ in rng.sample(dts, min(len(dts), rng.choice([1, 2]))):
            dr.append({'symbol': sym, 'timeframe': tf_})
    # warm-up aligned to every route timeframe (as jesse's loader guarantees): a multiple of their lcm
    import math
    mx = 1
    for m in [gen.TF_MIN[r['timeframe']] for r in routes] + [gen.TF_MIN[d['timeframe']] for d in dr]:
        mx = mx * m // math.gcd(mx, m)
    if warmup % mx:
        warmup = -(-warmup // mx) * mx
    for sym in candles:
        candles[sym]['n'] = minutes + warmup
    return {'config': cfg, 'routes': routes, 'data_routes': dr, 'candles': candles, 'warmup': warmup,
            'fast': rng.random() < 0.4 if fast is None else fast}
