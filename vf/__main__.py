"""./check <ID> [quick|thorough] | ./check <ID> --replay <path>"""
import os
import sys

from . import runner


def main(argv):
    if not argv:
        print(__doc__)
        return 2
    prop = argv[0].upper()
    modname = f'vf.checks.{prop.lower()}'
    if '--replay' in argv:
        return runner.run_replay(modname, argv[argv.index('--replay') + 1])
    tier = argv[1] if len(argv) > 1 else os.environ.get('VERIF_TIER', 'quick')
    if tier not in ('quick', 'thorough'):
        print('tier must be quick or thorough')
        return 2
    seed = int(os.environ.get('VERIF_SEED', '0') or 0)
    return runner.run_check(modname, tier, seed)


if __name__ == '__main__':
    sys.exit(main(sys.argv[1:]))
