"""Direct-drive: a real store (config -> router -> candle store -> _prepare_routes, the calls _isolated_backtest makes)
and generated operation histories applied straight to the real Order / Position / Exchange objects."""
import numpy as np

from . import gen

EXCHANGE = 'Sandbox'


def make_stub_strategy():
    """A minimal strategy that does exactly what the statements say the strategy layer does: expose the leverage
    and cancel everything resting on the symbol when the position closes."""
    from jesse.strategies import Strategy

    class Stub(Strategy):
        def should_long(self):
            return False

        def go_long(self):
            pass

        def should_cancel_entry(self):
            return False

        def _on_updated_position(self, order):
            from jesse.store import store
            if self.position.is_close:
                for o in list(store.orders.get_orders(self.exchange, self.symbol)):
                    if o.is_active:
                        o.cancel()
            self.log_effect = getattr(self, 'log_effect', [])

    return Stub


class World:
    def __init__(self, cfg, symbols, strategy_cls=None, prices=None):
        import jesse.helpers as jh
        from jesse.config import config, set_config
        from jesse.research.backtest import _format_config
        from jesse.routes import router
        from jesse.store import store
        import jesse.modes.backtest_mode as bm
        from . import session
        jh.CACHED_CONFIG.clear()
        config['app']['trading_mode'] = 'backtest'
        c = dict(cfg)
        c.setdefault('exchange', EXCHANGE)
        c.setdefault('warm_up_candles', 0)
        set_config(_format_config(c))
        cls = strategy_cls or make_stub_strategy()
        router.initiate([{'exchange': EXCHANGE, 'symbol': s, 'timeframe': '1m', 'strategy': cls} for s in symbols], [])
        store.candles.init_storage(500)
        self.store = store
        self.symbols = list(symbols)
        self.t = gen.T0
        store.app.time = self.t + 60000
        store.app.starting_time = self.t
        prices = prices or {s: 100.0 for s in symbols}
        for s in symbols:
            p = prices[s]
            store.candles.add_candle(np.array([self.t, p, p, p, p, 1.0]), EXCHANGE, s, '1m', with_execution=False,
                                     with_generation=False)
        bm._prepare_routes()
        session.rebuild_drivers()
        self.exchange = store.exchanges.storage[EXCHANGE]
        self.pos = {s: store.positions.storage[f'{EXCHANGE}-{s}'] for s in symbols}
        for s in symbols:
            self.pos[s].current_price = prices[s]
        self.orders = []

    def tick(self):
        self.t += 60000
        self.store.app.time = self.t + 60000

    def submit(self, symbol, side, typ, qty, price, reduce_only):
        from jesse.models import Order
        import jesse.helpers as jh
        o = Order({'id': jh.generate_unique_id(), 'symbol': symbol, 'exchange': EXCHANGE, 'side': side, 'type': typ,
                   'reduce_only': reduce_only, 'qty': jh.prepare_qty(qty, side), 'price': price})
        self.store.orders.add_order(o)
        self.orders.append(o)
        return o

    def execute(self, o):
        # as the simulators do: the position's current price is the fill price at the moment of the fill
        self.pos[o.symbol].current_price = o.price
        o.execute()

    def cancel(self, o):
        o.cancel()

    def move(self, symbol, price):
        self.pos[symbol].current_price = price

    def close(self):
        from jesse.config import reset_config
        reset_config()
        self.store.reset()
