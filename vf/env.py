"""Paths, environment and the tree fingerprint shared by the runner and the workers."""
import hashlib
import os
import subprocess
import sys

VERIF = os.path.dirname(os.path.dirname(os.path.abspath(__file__)))
REPO = os.environ.get('VERIF_REPO', '/repo')
PY = '/venv/bin/python'
CACHE = os.path.join(VERIF, '.cache')
# evidence/ describes runs against /repo itself; runs against a scratch tree (seeded changes, mutants) write elsewhere
EVIDENCE = os.path.join(VERIF, 'evidence') if os.path.abspath(REPO) == '/repo' else os.path.join(CACHE, 'evidence-scratch')
REPLAYS = os.path.join(VERIF, 'replays') if os.path.abspath(REPO) == '/repo' else os.path.join(CACHE, 'replays-scratch')
NCPU = int(os.environ.get('VERIF_JOBS', str(os.cpu_count() or 4)))


def numba_cache_dir(tag: str = 'default') -> str:
    # one cache per (repo path, mode): a scratch copy of the repository must never
    # read kernels compiled from another tree
    h = hashlib.sha1(os.path.abspath(REPO).encode()).hexdigest()[:10]
    d = os.path.join(CACHE, f'numba-{tag}-{h}')
    os.makedirs(d, exist_ok=True)
    return d


def worker_env(extra: dict = None, numba_tag: str = 'default') -> dict:
    env = dict(os.environ)
    env['PYTHONHASHSEED'] = '0'
    env['PYTHONPATH'] = os.pathsep.join([VERIF, REPO])
    env['NUMBA_CACHE_DIR'] = numba_cache_dir(numba_tag)
    env['VERIF_REPO'] = REPO
    env['JESSE_VERIF'] = '1'
    env.pop('PYTEST_CURRENT_TEST', None)
    env.pop('PYCHARM_HOSTED', None)
    if extra:
        env.update({k: str(v) for k, v in extra.items()})
    return env


def use_repo() -> None:
    """Make `import jesse` resolve to REPO's working tree in this process."""
    if REPO in sys.path:
        sys.path.remove(REPO)
    sys.path.insert(0, REPO)
    os.environ.setdefault('NUMBA_CACHE_DIR', numba_cache_dir())


def tree_fingerprint() -> dict:
    try:
        head = subprocess.run(['git', '-C', REPO, 'rev-parse', 'HEAD'], capture_output=True, text=True,
                              timeout=20).stdout.strip()
        diff = subprocess.run(['git', '-C', REPO, 'diff', 'HEAD', '--', 'jesse'], capture_output=True,
                              timeout=60).stdout
        return {'repo': REPO, 'head': head, 'diff_sha1': hashlib.sha1(diff).hexdigest()}
    except Exception as e:  # not a git tree (scratch copy)
        return {'repo': REPO, 'head': None, 'diff_sha1': None, 'note': repr(e)}
