"""Offline checker over a session's event log: resting orders vs the intra-minute price path (C02, C08, used by C12).

Reference model (independent of jesse code): inside one minute the price follows the polyline
O -> L -> H -> C (close >= open) or O -> H -> L -> C (close < open) of the candle whose open has been normalised to the
previous close. `first_occ(path, p, pi)` is the first position t >= pi at which the path is at price p.
"""
import numpy as np

from . import gen

RESTING = ('LIMIT', 'STOP')


def polyline(o, c, h, l):
    return [o, l, h, c] if c >= o else [o, h, l, c]


def first_occ(path, p, pi=0.0):
    """smallest t in [pi, 3] with path(t) == p, else None. t = segment index + fraction of the segment."""
    for k in range(3):
        a, b = path[k], path[k + 1]
        if a == b:
            if p == a:
                t = max(pi, float(k))          # the whole segment sits at this price
                if t <= k + 1:
                    return t
            continue
        lo, hi = (a, b) if a < b else (b, a)
        if lo <= p <= hi:
            t = k + (p - a) / (b - a)
            if t >= pi:
                return t
    return None


class Book:
    """order table rebuilt from the event log"""

    def __init__(self):
        self.o = {}

    def on_submit(self, ev):
        self.o[ev['o']] = {'o': ev['o'], 'symbol': ev['symbol'], 'type': ev['type'], 'side': ev['side'], 'qty': ev['qty'],
                           'price': ev['price'], 'status': ev['status'], 'seq': ev['seq'], 'created_at': ev['created_at'],
                           'reduce_only': ev['reduce_only'], 'in_liq': ev.get('in_liq', 0), 't': ev['t'],
                           'in_match': ev.get('in_match', 0)}

    def active(self, symbol, kinds=RESTING):
        return [x for x in self.o.values() if x['symbol'] == symbol and x['status'] == 'ACTIVE' and x['type'] in kinds]


def check(events, candles, warm, fast, aborted=False, want=('c02',)):
    """candles/warm: {symbol: ndarray} input series (un-normalised). Returns (violations, counters)."""
    viol, cnt = [], {}

    def c(k, n=1):
        cnt[k] = cnt.get(k, 0) + n

    def v(key, msg, **w):
        viol.append({'key': key, 'msg': msg, 'witness': w})

    norm, raw, idx = {}, {}, {}
    for sym, arr in candles.items():
        # the simulators normalise the open of every candle but the first one of the session to the previous close
        # (the first trading candle is not tied to the last warm-up candle)
        norm[sym] = gen.normalise(arr)
        raw[sym] = arr
        idx[sym] = {int(ts): i for i, ts in enumerate(arr[:, 0])}
    book = Book()
    minute = {}      # symbol -> dict(path, pi, ts, candle) while the matching of a minute is running (step mode)
    chunk = {}       # symbol -> dict(...) while the matching of a chunk is running (fast mode)
    pending_call = {}
    last_minute_ts = {}     # symbol -> ts of the latest minute whose matching started
    market_open = {}        # o -> submit event for MARKET orders not yet executed

    for ev in events:
        k = ev['k']
        if k == 'submit':
            book.on_submit(ev)
            if fast and any(pc_.get('at_minute_end') for pc_ in pending_call.values()):
                # submitted by a callback of a MARKET order that the fast simulator executes at the END of a minute inside a
                # chunk: the order exists from that minute's end on (it cannot fill in that minute, only in later ones)
                book.o[ev['o']]['at_minute_end'] = True
                c('orders_submitted_at_a_minute_end_inside_a_chunk')
            if ev['type'] == 'MARKET' and not ev.get('in_liq'):
                market_open[ev['o']] = ev
                if not fast and ev.get('in_match') and ev['symbol'] in minute:
                    # submitted by a fill callback in the normal simulator: where the path stands now
                    m_ = minute[ev['symbol']]
                    book.o[ev['o']]['pi_at_submit'] = m_['pi']
                    book.o[ev['o']]['minute_ts'] = m_['ts']
                    # (inside the callback of a fill that is still being processed: the position is that fill's, set below)
                    par_ = [o_ for o_ in pending_call if (book.o.get(o_) or {}).get('type') != 'MARKET'
                            and (book.o.get(o_) or {}).get('symbol') == ev['symbol']]
                    if par_:
                        book.o[ev['o']]['pi_parent'] = par_[-1]
                        book.o[ev['o']]['pi_at_submit'] = None
                cur = (ev.get('pos') or {}).get('cur')
                if cur is not None:
                    c('market_submits')
                    rel = abs(ev['price'] / cur - 1)
                    if rel > 0.00015 * (1 + 1e-9):
                        v('market_order_price_not_current',
                          f"MARKET order priced {ev['price']} while current price is {cur} (rel {rel:.3e})",
                          order={kk: ev[kk] for kk in ('o', 'side', 'qty', 'price', 'reduce_only', 't')})
            continue
        if k == 'cancel_ret':
            o = book.o.get(ev['o'])
            if o is not None and o['status'] == 'ACTIVE' and ev['status'] == 'CANCELED':
                o['status'] = 'CANCELED'
                o['cancel_seq'] = ev['seq']
                market_open.pop(ev['o'], None)
            continue
        if k == 'exec_call':
            pending_call[ev['o']] = ev
            o_ = book.o.get(ev['o'])
            if fast and o_ is not None and o_['type'] == 'MARKET' and ev.get('in_match') and o_['symbol'] in chunk \
                    and ev.get('status') == 'ACTIVE' and not o_.get('in_liq'):
                # a MARKET order submitted by a fill callback inside a chunk: like in the normal simulator it is executed where
                # the rest of its minute's path is at its price (normally the position of the fill that caused it); one whose
                # price the rest of the minute does not visit any more waits for the end of that minute
                ch_ = chunk[o_['symbol']]
                j_ = (int(ev['t']) - 60000 - ch_['ts0']) // 60000
                if 0 <= j_ < ch_['n']:
                    row_ = ch_['rows'][j_]
                    pi_ = ch_['pi'] if j_ == ch_['cur'] else 0.0
                    tm_ = first_occ(polyline(row_[1], row_[2], row_[3], row_[4]), o_['price'], pi_)
                    if tm_ is None:
                        ev['at_minute_end'] = True
                    elif j_ == ch_['cur'] and tm_ > ch_['pi']:
                        ch_['pi'] = tm_
                        c('market_fills_that_moved_the_path_position')
            continue
        if k == 'match_enter':
            sym = ev['symbol']
            cc = ev['c']
            ts = int(cc[0])
            i = idx[sym].get(ts)
            last_minute_ts[sym] = ts
            _market_deadline(market_open, sym, ts, v, book)
            if i is None:
                continue
            mine = norm[sym][i]
            if not np.array_equal(np.array(cc[1:5]), mine[1:5]):
                v('minute_candle_not_normalised_input',
                  f'matching candle {cc} differs from the normalised input candle {mine.tolist()}', ts=ts)
            o_, c_, h_, l_ = mine[1:5]
            minute[sym] = {'path': polyline(o_, c_, h_, l_), 'pi': 0.0, 'ts': ts, 'c': mine.tolist(),
                           'raw': raw[sym][i].tolist(), 'fills': 0, 'had_resting': len(book.active(sym)) > 0}
            continue
        if k == 'mmatch_enter':
            sym = ev['symbol']
            ts0 = int(ev['ts0'])
            i0 = idx[sym].get(ts0)
            last_minute_ts[sym] = ts0 + (ev['n'] - 1) * 60000
            _market_deadline(market_open, sym, ts0, v, book)
            if i0 is None:
                continue
            rows = norm[sym][i0:i0 + ev['n']]
            cands = [x for x in book.active(sym) if rows[:, 4].min() <= x['price'] <= rows[:, 3].max()]
            chunk[sym] = {'i0': i0, 'n': ev['n'], 'rows': rows, 'seq': ev['seq'], 'ts0': ts0,
                          'cands0': len(cands), 'fills': 0, 'cur': 0, 'pi': 0.0}
            continue
        if k == 'exec_ret':
            call = pending_call.pop(ev['o'], None)
            o = book.o.get(ev['o'])
            if o is None or call is None:
                continue
            if call['status'] != 'ACTIVE':
                if ev['status'] == 'EXECUTED' and call['status'] == 'CANCELED':
                    v('executed_after_cancel', f"order {o} executed after it was cancelled")
                c('execute_calls_on_final_orders')
                continue
            if ev['status'] != 'EXECUTED':
                continue
            o['status'] = 'EXECUTED'
            o['exec_seq'] = ev['seq']
            sym = o['symbol']
            if o['type'] == 'MARKET':
                market_open.pop(ev['o'], None)
                if not o.get('in_liq'):
                    c('market_fills')
                    if ev['executed_at'] != o['created_at']:
                        key = 'market_fill_deferred_in_fast_chunk' if (fast and o.get('in_match')) else \
                            'market_fill_not_at_submission_time'
                        v(key, f"MARKET order created_at {o['created_at']} executed_at {ev['executed_at']}",
                          order=o)
                    if not fast and sym in minute and (call or {}).get('in_match'):
                        # the normal simulator executes a MARKET order that a fill callback submitted where the rest of the
                        # minute's path is at the order's price (the current price of its submission). That is normally the
                        # position of the fill; after a fill exactly at the open of the remaining candle (no earlier part: the
                        # current price is the CLOSE of the remainder) it is further down the path - the position moves there
                        tm = first_occ(minute[sym]['path'], o['price'], minute[sym]['pi'])
                        if tm is not None and tm > minute[sym]['pi']:
                            minute[sym]['pi'] = tm
                            c('market_fills_that_moved_the_path_position')
                continue
            # ---- a resting order was filled ----
            c('resting_fills')
            c('resting_fills_fast' if fast else 'resting_fills_step')
            if ev['price'] != o['price'] or ev['qty'] != o['qty']:
                v('fill_price_or_qty_differs', f"submitted {o['qty']}@{o['price']} filled {ev['qty']}@{ev['price']}")
            pb, pa = (call.get('pos') or {}), (ev.get('pos') or {})
            if pb and pa and pb.get('qty') == 0 and pa.get('qty') != 0 and pa.get('entry') != o['price']:
                v('opening_fill_entry_price_differs', f"order {o['price']} opened position at {pa.get('entry')}")
            if sym in minute:
                m = minute[sym]
                p = o['price']
                t = first_occ(m['path'], p, m['pi'])
                m['fills'] += 1
                # a MARKET order that a callback submitted at the price where the path stood executes there and then: no
                # resting order further down the path is filled while it is still pending
                for mo_, mev_ in market_open.items():
                    bo_ = book.o.get(mo_) or {}
                    if bo_.get('status') == 'ACTIVE' and bo_.get('symbol') == sym and bo_.get('minute_ts') == m['ts'] \
                            and bo_.get('pi_at_submit') is not None and mo_ != o['o'] and t is not None and t > bo_['pi_at_submit']:
                        t_m = first_occ(m['path'], bo_['price'], bo_['pi_at_submit'])
                        if t_m is not None and t_m == bo_['pi_at_submit']:
                            c('market_order_precedence_checks')
                            v('resting_fill_while_a_market_order_at_the_current_price_is_pending',
                              f"order {o['type']} {p} filled in minute {m['ts']} (path position {t:.4f}) although a MARKET order priced "
                              f"{bo_['price']} had been submitted at position {bo_['pi_at_submit']:.4f}, where the path was at that "
                              f"price, and was still pending", order=o, market=bo_)
                            break
                mc = m['c']
                if p in (mc[1], mc[2], mc[3], mc[4]):
                    c('fills_at_candle_extreme_or_open_close')
                rw = m['raw']
                if p > rw[3] or p < rw[4]:
                    c('fills_inside_gap')
                if o['seq'] > 0 and o.get('in_match') and o['t'] == ev['t']:
                    c('reaction_order_fills_same_minute')
                if t is None:
                    inside = mc[4] <= p <= mc[3]
                    v('fill_behind_path_position' if inside else 'fill_outside_minute_range',
                      f"order {p} filled in minute {m['ts']} candle {mc} but the path position was {m['pi']:.4f} "
                      f"(path {m['path']})", order=o, minute=m['ts'], candle=mc, pi=m['pi'])
                    continue
                for other in book.active(sym):
                    if other['o'] == o['o'] or other['seq'] > call['seq']:
                        continue
                    t2 = first_occ(m['path'], other['price'], m['pi'])
                    if t2 is not None and t2 < t:
                        v('path_order_violated',
                          f"order at {p} (path position {t:.4f}) filled before active order at {other['price']} "
                          f"(position {t2:.4f}) in minute {m['ts']} candle {mc}", first=o, skipped=other, candle=mc,
                          pi=m['pi'])
                        break
                m['pi'] = t
                for mo_ in market_open:
                    if (book.o.get(mo_) or {}).get('pi_parent') == o['o']:
                        book.o[mo_]['pi_at_submit'] = t
            elif sym in chunk:
                ch = chunk[sym]
                ch['fills'] += 1
                fm = int(ev['t']) - 60000
                j = (fm - ch['ts0']) // 60000
                p = o['price']
                if not (0 <= j < ch['n']):
                    v('fast_fill_minute_outside_chunk', f'fill clock {ev["t"]} outside chunk starting {ch["ts0"]}')
                    continue
                row = ch['rows'][j]
                if not (row[4] <= p <= row[3]):
                    v('fast_fill_outside_minute_range', f'order {p} filled at minute {fm} whose range is '
                                                        f'[{row[4]}, {row[3]}]', order=o)
                if p > raw[sym][ch['i0'] + j][3] or p < raw[sym][ch['i0'] + j][4]:
                    c('fills_inside_gap')
                if p in (row[1], row[2], row[3], row[4]):
                    c('fills_at_candle_extreme_or_open_close')
                # ---- the same polyline oracle as in the normal simulator, minute by minute inside the chunk ----
                for mm in range(ch['cur'], j):
                    _fast_minute_end(ch, mm, ch['pi'] if mm == ch['cur'] else 0.0, call['seq'], book, sym, v, c)
                if j != ch['cur']:
                    ch['cur'], ch['pi'] = j, 0.0
                path = polyline(row[1], row[2], row[3], row[4])
                tpos = first_occ(path, p, ch['pi'])
                if tpos is None:
                    if row[4] <= p <= row[3]:
                        v('fast_fill_behind_path_position',
                          f'order {p} filled in minute {j} of chunk {ch["ts0"]} (candle {row.tolist()}) but the path position '
                          f'was {ch["pi"]:.4f} (path {path})', order=o)
                else:
                    for other in book.active(sym):
                        if other['o'] == o['o'] or other['seq'] > call['seq']:
                            continue
                        t2 = first_occ(path, other['price'], ch['pi'])
                        if t2 is not None and t2 < tpos:
                            v('fast_path_order_violated',
                              f'order at {p} (path position {tpos:.4f}) filled before active order at {other["price"]} '
                              f'(position {t2:.4f}) in minute {j} of chunk {ch["ts0"]} candle {row.tolist()}', first=o, skipped=other)
                            break
                    ch['pi'] = tpos
                # first touch: no earlier minute of this chunk (from the order's first eligible minute) contains p
                j0 = 0
                if o['seq'] > ch['seq']:
                    j0 = max(0, (int(o['t']) - 60000 - ch['ts0']) // 60000)   # creation minute (same minute allowed)
                early = [jj for jj in range(j0, j) if ch['rows'][jj][4] <= p <= ch['rows'][jj][3]]
                if early and o['seq'] < ch['seq']:
                    key = 'fast_chunk_multi_candidate' if ch['cands0'] >= 2 else 'fast_fill_later_than_first_touch'
                    v(key, f'order {p} resting since before the chunk filled in minute {j} of the chunk although minute '
                           f'{early[0]} already contained it (candidates at chunk start: {ch["cands0"]})', order=o)
            else:
                if not o.get('in_liq'):
                    v('resting_fill_outside_matching', f"LIMIT/STOP order {o} executed outside a matching phase")
            continue
        if k == 'liq_enter':
            sym = ev['symbol']
            if sym in minute:
                m = minute.pop(sym)
                act = book.active(sym)
                if act or m['had_resting']:
                    c('minute_end_evals_with_resting')
                c('minute_end_evals')
                for o in act:
                    t2 = first_occ(m['path'], o['price'], m['pi'])
                    if t2 is not None:
                        v('left_unfilled_in_range',
                          f"order {o['type']} {o['side']} {o['price']} still ACTIVE at the end of minute {m['ts']} whose "
                          f"remaining path (from {m['pi']:.4f} of {m['path']}) reaches it", order=o, candle=m['c'],
                          pi=m['pi'])
            continue
        if k == 'addmulti':
            sym = ev['symbol']
            if sym in chunk:
                ch = chunk.pop(sym)
                c('chunk_end_evals')
                rows = ch['rows']
                for mm in range(ch['cur'], ch['n']):
                    _fast_minute_end(ch, mm, ch['pi'] if mm == ch['cur'] else 0.0, ev['seq'], book, sym, v, c)
                for o in book.active(sym):
                    p = o['price']
                    if o['seq'] < ch['seq']:
                        lo, hi = rows[:, 4].min(), rows[:, 3].max()
                        if lo <= p <= hi:
                            key = 'fast_chunk_multi_candidate' if ch['cands0'] >= 2 else \
                                'fast_left_unfilled_single_candidate'
                            v(key, f"order {o['type']} {o['side']} {p} resting since before the chunk is still ACTIVE at "
                                   f"the end of chunk {ch['ts0']}+{ch['n']}m whose range [{lo}, {hi}] contains it "
                                   f"(candidates at chunk start: {ch['cands0']})", order=o, chunk_ts0=ch['ts0'])
                    else:
                        j0 = (int(o['t']) - 60000 - ch['ts0']) // 60000 + 1
                        if 0 <= j0 < ch['n']:
                            lo, hi = rows[j0:, 4].min(), rows[j0:, 3].max()
                            if lo <= p <= hi:
                                key = 'fast_chunk_multi_candidate' if (ch['cands0'] + ch['fills']) >= 2 else \
                                    'fast_reaction_left_unfilled'
                                v(key, f"reaction order {p} created in minute {j0 - 1} of chunk {ch['ts0']} still ACTIVE at "
                                       f"chunk end although later minutes' range [{lo}, {hi}] contains it", order=o)
            continue
        if k == 'match_exit':
            minute.pop(ev['symbol'], None)   # only reached when the liquidation patch point is missing
            continue
        if k == 'mmatch_exit':
            chunk.pop(ev['symbol'], None)
            continue
    # market orders still queued at the end of a completed session
    if not aborted:
        for o, ev in market_open.items():
            if book.o[o]['status'] == 'ACTIVE':
                v('market_order_never_executed', f"MARKET order {book.o[o]} was still queued when the session ended")
    return viol, cnt


def _fast_minute_end(ch, mm, pi, upto_seq, book, sym, v, c):
    """end of minute `mm` of a fast-mode chunk: no order that existed during that minute may still be ACTIVE if the rest of
    the minute's path (from position pi) reaches its price"""
    row = ch['rows'][mm]
    path = polyline(row[1], row[2], row[3], row[4])
    t_end = ch['ts0'] + (mm + 1) * 60000
    c('fast_minute_end_evals')
    for o in book.active(sym):
        if o['seq'] >= upto_seq or o['t'] > t_end or (o.get('at_minute_end') and o['t'] == t_end):
            continue
        if first_occ(path, o['price'], pi) is not None:
            v('fast_left_unfilled_in_minute',
              f"order {o['type']} {o['side']} {o['price']} still ACTIVE after minute {mm} of chunk {ch['ts0']} whose remaining "
              f"path (from {pi:.4f} of {path}) reaches it", order=o, chunk_ts0=ch['ts0'], minute=mm)


def _market_deadline(market_open, sym, ts, v, book):
    """called when the matching of a later minute/chunk of `sym` starts: every MARKET order of that symbol submitted
    during an earlier minute must have been executed by now."""
    for o, ev in list(market_open.items()):
        if ev['symbol'] != sym:
            continue
        if book.o[o]['status'] != 'ACTIVE':
            market_open.pop(o, None)
            continue
        if ev['t'] <= ts:      # submitted while the clock was at or before the start of this minute
            v('market_order_not_executed_before_next_candle',
              f"MARKET order {book.o[o]} still queued when minute {ts} started")
            market_open.pop(o, None)
