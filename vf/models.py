"""Reference account models (independent of jesse code), event driven.

AccountFutures: average-cost margin account in exact rational arithmetic (quantities added as decimals, the semantics
jesse documents for sum_floats/subtract_floats). AccountSpot: cash account.
"""
from decimal import Decimal
from fractions import Fraction as F


def D(x):
    return Decimal(repr(float(x)))


def close_enough(a, b, tol=1e-9):
    a, b = float(a), float(b)
    return abs(a - b) <= tol * max(1.0, abs(a), abs(b))


class AccountFutures:
    def __init__(self, balance, leverage, fee_rate, symbols):
        self.wallet = F(balance)
        self.L = F(leverage)
        self.fee = F(fee_rate)
        self.qty = {s: Decimal(0) for s in symbols}
        self.entry = {s: None for s in symbols}
        self.price = {s: None for s in symbols}
        self.resting = {}        # key -> (symbol, side, qty(signed float), price) for non-reduce-only resting orders
        self.effects = []

    # -- derived -------------------------------------------------------------------------------
    def upnl(self, s):
        q = self.qty[s]
        if q == 0 or self.entry[s] is None or self.price[s] is None:
            return F(0)
        return (F(self.price[s]) - self.entry[s]) * F(q)

    def available_margin(self):
        m = self.wallet
        for s in self.qty:
            q = self.qty[s]
            if q != 0:
                m -= abs(F(q)) * self.entry[s] / self.L
                m += self.upnl(s)
            buys = sum((abs(F(o[2])) * F(o[3]) for o in self.resting.values() if o[0] == s and o[1] == 'buy'), F(0))
            sells = sum((abs(F(o[2])) * F(o[3]) for o in self.resting.values() if o[0] == s and o[1] == 'sell'), F(0))
            m -= max(buys, sells) / self.L
        return m

    def needs(self, qty, price):
        return abs(F(qty)) * F(price) / self.L

    # -- events --------------------------------------------------------------------------------
    def submit(self, key, symbol, side, qty, price, reduce_only):
        if not reduce_only:
            self.resting[key] = (symbol, side, qty, price)

    def cancel(self, key):
        self.resting.pop(key, None)

    def fill(self, key, symbol, side, qty, price, reduce_only):
        """qty signed (buy > 0). Returns the effect name."""
        self.resting.pop(key, None)
        q, p = D(qty), F(price)
        cur = self.qty[symbol]
        oversize = reduce_only and cur != 0 and (cur > 0) != (q > 0) and abs(q) > abs(cur)
        if oversize:
            q = -cur          # a reduce-only order larger than the position is filled for the size of the position only
        self.wallet -= abs(F(q)) * p * self.fee
        self.price[symbol] = price
        if cur == 0:
            self.qty[symbol], self.entry[symbol] = q, p
            eff = 'open'
        elif cur + q == 0:
            self.wallet += (p - self.entry[symbol]) * F(cur)
            self.qty[symbol], self.entry[symbol] = Decimal(0), None
            eff = 'oversize_close' if oversize else 'close'
        elif (cur > 0) == (q > 0):
            if reduce_only:
                eff = 'ignored_reduce_only_increase'
            else:
                self.entry[symbol] = (abs(F(q)) * p + abs(F(cur)) * self.entry[symbol]) / (abs(F(q)) + abs(F(cur)))
                self.qty[symbol] = D(float(cur + q))
                eff = 'increase'
        else:
            if abs(q) > abs(cur):
                self.wallet += (p - self.entry[symbol]) * F(cur)
                if reduce_only:
                    self.qty[symbol], self.entry[symbol] = Decimal(0), None
                    eff = 'oversize_close'
                else:
                    self.qty[symbol], self.entry[symbol] = D(float(cur + q)), p
                    eff = 'flip'
            else:
                # realise on the reduced part: (p - entry) * reduced qty * side
                red = -q          # signed like the position
                self.wallet += (p - self.entry[symbol]) * F(red)
                self.qty[symbol] = D(float(cur + q))
                eff = 'reduce'
        self.effects.append(eff)
        return eff


class AccountSpot:
    def __init__(self, balance, fee_rate, symbols):
        self.quote = F(balance)
        self.fee = F(fee_rate)
        self.base = {s: Decimal(0) for s in symbols}
        self.resting = {}     # key -> (symbol, side, type, qty>0, price)

    def committed(self, symbol, typ):
        return sum((D(o[3]) for o in self.resting.values() if o[0] == symbol and o[1] == 'sell' and o[2] == typ),
                   Decimal(0))

    def check_submit(self, symbol, side, typ, qty, price):
        """returns (must_reject, slack) - slack = how far from the threshold (for the don't-care band)"""
        if side == 'buy':
            need = F(D(qty)) * F(price)
            return need > self.quote, float(need - self.quote)
        if typ == 'MARKET':
            total = D(qty) + self.committed(symbol, 'LIMIT')
        else:
            total = D(qty) + self.committed(symbol, typ)
        return total > self.base[symbol], float(total - self.base[symbol])

    def submit(self, key, symbol, side, typ, qty, price):
        if side == 'buy':
            self.quote -= F(D(qty)) * F(price)
        self.resting[key] = (symbol, side, typ, abs(qty), price)

    def cancel(self, key):
        o = self.resting.pop(key, None)
        if o and o[1] == 'buy':
            self.quote += F(D(o[3])) * F(o[4])

    def fill(self, key, symbol, side, typ, qty, price):
        self.resting.pop(key, None)
        q = D(abs(qty))
        if side == 'buy':
            # quote was reserved at submission; base credited net of fee
            self.base[symbol] += Decimal(repr(float(F(q) * (1 - self.fee))))
        else:
            sold = min(q, self.base[symbol])
            self.quote += F(sold) * F(price) * (1 - self.fee)
            self.base[symbol] -= sold
