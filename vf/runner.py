"""Job pool, verdicts, evidence and known-findings handling shared by all checks.

A check module provides
    PROP            property id
    RULE            text: how cases are generated and what makes one distinct / non-trivial
    make_jobs(tier, seed) -> list of JSON-serialisable job dicts
    run_job(job) -> {'viol': [{'key','msg','witness'}], 'cnt': {name: int}, 'sigs': [str], 'sample': any}
and optionally
    MIN_OBS         {counter: minimum} (per tier via min_obs(tier)); below it the verdict is inconclusive
    ASSUMPTIONS     list of str
    job_env(job)    extra environment for the worker that runs this job (jobs are grouped by it)
    ISOLATE         True: one fresh process per job
    finalize(results, tier) -> {'viol': [...], 'cnt': {...}}   cross-job oracle (e.g. two-process comparisons)
    SHARD_TIMEOUT   seconds (watchdog; firing => inconclusive)
"""
import hashlib
import importlib
import json
import os
import subprocess
import sys
import tempfile
import time

from . import env

FINDINGS_FILE = os.path.join(env.VERIF, 'known_findings.json')


def load_findings(prop):
    try:
        with open(FINDINGS_FILE) as f:
            data = json.load(f)
    except FileNotFoundError:
        return []
    return [e for e in data.get('findings', []) if e.get('property') == prop]


def classify(viol_key, findings):
    """A violation is a known finding iff an entry with status 'known' lists exactly its mechanism key."""
    for e in findings:
        if e.get('status') != 'known':
            continue
        if e.get('key') == viol_key or viol_key in (e.get('keys') or []):
            return e
    return None


def _shards(jobs, n):
    n = max(1, min(n, len(jobs)))
    return [jobs[i::n] for i in range(n)]


def _spawn(modname, jobs, extra_env, numba_tag, workdir, tag):
    jf = os.path.join(workdir, f'jobs-{tag}.json')
    of = os.path.join(workdir, f'out-{tag}.jsonl')
    ef = os.path.join(workdir, f'err-{tag}.txt')
    with open(jf, 'w') as f:
        json.dump(jobs, f)
    p = subprocess.Popen([env.PY, '-W', 'ignore', '-X', 'faulthandler', '-m', 'vf.worker', modname, jf, of],
                         env=env.worker_env(extra_env, numba_tag), cwd=_worker_cwd(),
                         stdout=subprocess.DEVNULL, stderr=open(ef, 'w'))
    return {'p': p, 'of': of, 'ef': ef, 'jobs': jobs, 'tag': tag, 't0': time.time()}


def _worker_cwd():
    """jesse creates storage/... directories relative to the working directory: workers live in a scratch one"""
    d = os.path.join(env.CACHE, 'cwd')
    os.makedirs(d, exist_ok=True)
    return d


def run_jobs(mod, jobs, nproc=None, timeout=None):
    """Runs jobs in worker subprocesses; returns (results, problems). results[i] aligns with jobs order
    by job['_i']."""
    nproc = nproc or env.NCPU
    timeout = timeout or getattr(mod, 'SHARD_TIMEOUT', 3600)
    modname = mod.__name__
    for i, j in enumerate(jobs):
        j['_i'] = i
    groups = {}
    job_env = getattr(mod, 'job_env', None)
    for j in jobs:
        e = job_env(j) if job_env else {}
        groups.setdefault(json.dumps(e, sort_keys=True), []).append(j)
    isolate = getattr(mod, 'ISOLATE', False)
    pending = []
    for gk, gjobs in groups.items():
        e = json.loads(gk)
        tag = e.pop('_numba_tag', 'default')
        if isolate:
            for j in gjobs:
                pending.append(([j], e, tag))
        else:
            share = max(1, round(nproc * len(gjobs) / max(1, len(jobs))))
            for sh in _shards(gjobs, share):
                pending.append((sh, e, tag))
    results, problems = {}, []
    with tempfile.TemporaryDirectory(prefix='vf-', dir=_scratch()) as wd:
        running, k = [], 0
        while pending or running:
            while pending and len(running) < nproc:
                sh, e, tag = pending.pop(0)
                running.append(_spawn(modname, sh, e, tag, wd, str(k)))
                k += 1
            time.sleep(0.05)
            for r in list(running):
                rc = r['p'].poll()
                if rc is None:
                    if time.time() - r['t0'] > timeout:
                        r['p'].kill()
                        r['p'].wait()
                        rc = 'timeout'
                    else:
                        continue
                running.remove(r)
                started = None
                done = set()
                try:
                    with open(r['of']) as f:
                        for line in f:
                            try:
                                o = json.loads(line)
                            except ValueError:
                                continue
                            if 'start' in o:
                                started = o['start']
                            else:
                                results[o['_i']] = o
                                done.add(o['_i'])
                except FileNotFoundError:
                    pass
                missing = [j['_i'] for j in r['jobs'] if j['_i'] not in done]
                if rc != 0 or missing:
                    try:
                        err = open(r['ef']).read()[-3000:]
                    except Exception:
                        err = ''
                    problems.append({'rc': rc, 'in_flight': started, 'missing': missing, 'stderr': err})
    return [results.get(i) for i in range(len(jobs))], problems


def _scratch():
    d = os.path.join(env.CACHE, 'work')
    os.makedirs(d, exist_ok=True)
    return d


def _write_replay(prop, v, job):
    os.makedirs(env.REPLAYS, exist_ok=True)
    body = {'property': prop, 'key': v.get('key'), 'msg': v.get('msg'), 'job': job, 'witness': v.get('witness'),
            'tree': env.tree_fingerprint()}
    h = hashlib.sha1(json.dumps([prop, v.get('key'), job], sort_keys=True, default=str).encode()).hexdigest()[:12]
    path = os.path.join(env.REPLAYS, f'{prop}-{h}.json')
    with open(path, 'w') as f:
        json.dump(body, f, indent=1, default=str)
    return path


def write_evidence(prop, tier, seed, coverage, wall, violations, assumptions, level='exploration'):
    os.makedirs(env.EVIDENCE, exist_ok=True)
    ev = {'property_id': prop, 'tier': tier, 'seed': int(seed), 'level': level, 'coverage': coverage,
          'assumptions': assumptions, 'wall_s': round(wall, 2), 'violations': int(violations)}
    path = os.path.join(env.EVIDENCE, f'{prop}.json')
    tmp = path + '.tmp'
    with open(tmp, 'w') as f:
        json.dump(ev, f, indent=1, default=str)
    os.replace(tmp, path)
    return path


def run_check(modname, tier, seed):
    t0 = time.time()
    mod = importlib.import_module(modname)
    prop = mod.PROP
    jobs = mod.make_jobs(tier, seed)
    results, problems = run_jobs(mod, jobs)
    cnt, sigs, samples, viols = {}, set(), [], []
    n_done = 0
    for job, res in zip(jobs, results):
        if res is None:
            continue
        n_done += 1
        if res.get('error'):
            problems.append({'rc': 'exception', 'in_flight': job['_i'], 'stderr': res['error'][-3000:]})
            continue
        for k, v in (res.get('cnt') or {}).items():
            cnt[k] = cnt.get(k, 0) + v
        for s in res.get('sigs') or []:
            sigs.add(s)
        if res.get('sample') is not None and len(samples) < 8:
            samples.append(res['sample'])
        for v in res.get('viol') or []:
            viols.append((v, job))
    if hasattr(mod, 'finalize'):
        fin = mod.finalize(jobs, results, tier) or {}
        for k, v in (fin.get('cnt') or {}).items():
            cnt[k] = cnt.get(k, 0) + v
        for s in fin.get('sigs') or []:
            sigs.add(s)
        for s in fin.get('samples') or []:
            if len(samples) < 10:
                samples.append(s)
        for v in fin.get('viol') or []:
            viols.append((v, v.get('job') or {}))
    if getattr(mod, 'CRASH_IS_VIOLATION', False):
        # a worker that dies from SIGSEGV / SIGABRT / SIGBUS / SIGILL / SIGFPE while it executes the code under test is a
        # memory-safety event of that code (checks that opt in run pure computations; a watchdog kill is rc 'timeout' / -9)
        for p_ in problems:
            if isinstance(p_.get('rc'), int) and p_['rc'] in (-11, -6, -7, -4, -8) and p_.get('in_flight') is not None:
                job_ = jobs[p_['in_flight']]
                viols.append(({'key': f"worker_crashed:signal{-p_['rc']}",
                               'msg': f"the interpreter died with signal {-p_['rc']} while running job #{p_['in_flight']} "
                                      f"({str({k_: v_ for k_, v_ in job_.items() if k_ in ('names', 'kinds', 'mode', 'n', 'group')})[:300]}): "
                                      f"{(p_.get('stderr') or '')[-400:]}",
                               'witness': {'stderr_tail': (p_.get('stderr') or '')[-1500:]}}, job_))
    findings = load_findings(prop)
    known_seen, new_by_key = {}, {}
    for v, job in viols:
        e = classify(v['key'], findings)
        if e is not None:
            known_seen.setdefault(v['key'], [e, 0])[1] += 1
        else:
            new_by_key.setdefault(v['key'], []).append((v, job))
    min_obs = mod.min_obs(tier) if hasattr(mod, 'min_obs') else getattr(mod, 'MIN_OBS', {})
    short = {k: (cnt.get(k, 0), m) for k, m in min_obs.items() if cnt.get(k, 0) < m}
    wall = time.time() - t0
    coverage = {
        'evaluations': n_done,
        'distinct_nontrivial': len(sigs),
        'rule': mod.RULE,
        'samples': samples if samples else [{'note': 'no sample recorded'}],
        'observed': dict(sorted(cnt.items())),
        'min_obs': min_obs,
        'known_findings_reobserved': {k: n for k, (e, n) in known_seen.items()},
        'new_violation_mechanisms': {k: len(v) for k, v in new_by_key.items()},
        'worker_problems': len(problems),
        'tree': env.tree_fingerprint(),
    }
    if getattr(mod, 'EXHAUSTIVE_NOTE', None):
        coverage['exhaustive_subspaces'] = mod.EXHAUSTIVE_NOTE
    write_evidence(prop, tier, seed, coverage, wall, len(new_by_key), getattr(mod, 'ASSUMPTIONS', []))
    for k, (e, n) in sorted(known_seen.items()):
        print(f"KNOWN-FINDING: property={prop} {k} ({n} witnesses this run) {e.get('what', '')}")
    if new_by_key:
        for k, lst in sorted(new_by_key.items()):
            v, job = lst[0]
            path = _write_replay(prop, v, job)
            print(f"VIOLATION property={prop} replay={path}")
            print(f"  mechanism={k} witnesses={len(lst)} :: {str(v.get('msg'))[:600]}")
        print(f"RESULT violated property={prop} tier={tier} seed={seed} jobs={n_done} wall={wall:.1f}s")
        return 1
    if problems:
        p = problems[0]
        print(f"INCONCLUSIVE property={prop} reason=worker_problem rc={p.get('rc')} in_flight={p.get('in_flight')}")
        print((p.get('stderr') or '')[-2000:])
        return 2
    if short:
        print(f"INCONCLUSIVE property={prop} reason=too_few_observations {short}")
        return 2
    print(f"RESULT held property={prop} tier={tier} seed={seed} jobs={n_done} distinct={len(sigs)} "
          f"wall={wall:.1f}s observed={json.dumps(dict(sorted(cnt.items())))[:1500]}")
    return 0


def run_replay(modname, path):
    mod = importlib.import_module(modname)
    with open(path) as f:
        body = json.load(f)
    job = body['job']
    results, problems = run_jobs(mod, [job], nproc=1)
    res = results[0]
    if res is None or res.get('error'):
        print('INCONCLUSIVE replay failed', problems, (res or {}).get('error'))
        return 2
    hit = [v for v in res.get('viol') or [] if v['key'] == body['key']]
    for v in res.get('viol') or []:
        print(f"replayed violation mechanism={v['key']} :: {v.get('msg')}")
        print(json.dumps(v.get('witness'), indent=1, default=str)[:6000])
    if hit:
        print(f"VIOLATION property={mod.PROP} replay={path}")
        return 1
    print('RESULT replay: the recorded mechanism did not fire on this tree')
    return 0
