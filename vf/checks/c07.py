"""C07 - every timeframe is the exact aggregation of the one-minute candles.

Online hook monitor: inside every hook of the scripted strategy (regular steps and fill hooks) every candle array the
strategy can read is compared with the independent aggregation (vf/gen.aggregate) of the 1m candles it can read at
that instant; the stored 1m candles are compared with the (documented) normalisation of the input candles. Helper
functions are checked directly on generated series.
"""
import random

import numpy as np

from .. import env, gen, scripted, session, specgen

PROP = 'C07'
RULE = ('random scripted sessions over trading timeframes 1m..4h with smaller/larger data routes, warm-up on/off, both '
        'simulators, lengths that are not multiples of the timeframe; in every hook each readable array is compared with the '
        'aggregation of the readable 1m candles. distinct = distinct (simulator, warm-up yes/no, sorted route timeframes, '
        'had mid-window fill); non-trivial = at least one comparison on a forming candle.')
ASSUMPTIONS = ['sessions start and warm-up lengths are aligned to every route timeframe (the quantifier says so)',
               'volume sums are compared with relative tolerance 1e-9, everything else exactly',
               'inside a fill hook the newest 1m row may be the partial candle (same timestamp and open, close = fill price)']
MIN_OBS = {'array_comparisons': 10000, 'forming_comparisons': 2000, 'comparisons_after_midwindow_fill': 300,
           'fast_comparisons': 2000, 'stored_1m_checks': 2000, 'helper_cases': 200,
           'callbacks_of_market_orders_run_inside_a_chunk': 100, 'hooks_inside_a_liquidation': 50, 'tf:1M': 200, 'tf:1W': 200, 'tf:3D': 200, 'tf:1D': 200}

SHARD_TIMEOUT = 3600      # generous wall-clock watchdog (its firing is INCONCLUSIVE, never a verdict)

CTX = {}


def _rows_equal(a, b):
    if a.shape != b.shape:
        return False
    if not np.array_equal(a[:, :5], b[:, :5]):
        return False
    return bool(np.all(np.abs(a[:, 5] - b[:, 5]) <= 1e-9 * np.maximum(1.0, np.abs(b[:, 5]))))


def _first_diff(a, b):
    n = min(len(a), len(b))
    for i in range(n):
        if not _rows_equal(a[i:i + 1], b[i:i + 1]):
            return i, a[i].tolist(), b[i].tolist()
    return n, None, None


def monitor(strategy, hook, ev):
    ctx = CTX
    if not ctx.get('on'):
        return
    from jesse.routes import router
    from jesse.store import store
    cnt, viol = ctx['cnt'], ctx['viol']

    def c(k, n=1):
        cnt[k] = cnt.get(k, 0) + n

    def v(key, msg, **w):
        if key not in ctx['keys']:
            ctx['keys'].add(key)
            w.update(hook=hook, index=strategy.index, time=store.app.time)
            viol.append({'key': key, 'msg': msg, 'witness': w})
        c('viol:' + key)

    from ..tracer import TR
    fill_hook = TR.in_match > 0          # hooks that run while the matching of a minute/chunk is in progress
    fast = ctx['fast']
    if TR.in_liq > 0:
        c('hooks_inside_a_liquidation')
    if fast and fill_hook and hook == 'on_increased_position' and strategy.s.get('on_reduced') == 'add_market' \
            and strategy.timeframe != '1m':
        c('callbacks_of_market_orders_run_inside_a_chunk')
    seen = set()
    for r in router.all_formatted_routes:
        sym, tf = r['symbol'], r['timeframe']
        if (sym, tf) in seen:
            continue
        seen.add((sym, tf))
        try:
            one = np.array(store.candles.get_candles(r['exchange'], sym, '1m'), copy=True)
        except Exception as ex:
            v('get_candles_1m_raises', f'{type(ex).__name__}: {ex}')
            continue
        # ---- stored 1m candles vs input -----------------------------------------------------
        if (sym, '1m') not in seen:
            seen.add((sym, '1m'))
            exp_all = ctx['expect_1m'][sym]
            n = len(one)
            c('stored_1m_checks')
            # one stored row per minute that has started by the simulated clock (the strategy's own symbol: during the matching
            # of a minute / chunk the other symbols may be a few minutes behind or ahead)
            if sym == strategy.symbol and len(exp_all):
                exp_n = int(-(-(store.app.time - exp_all[0][0]) // 60000))
                c('stored_1m_count_checks')
                if n != min(exp_n, len(exp_all)):
                    v('stored_1m_count_differs_from_clock',
                      f'{n} stored 1m candles of {sym} at clock {store.app.time} ({exp_n} minutes have started)', symbol=sym, fast=fast)
            if n > len(exp_all):
                v('stored_1m_more_rows_than_input', f'{n} stored 1m rows, input has {len(exp_all)}')
            else:
                upto = n - 1 if fill_hook else n
                if not _rows_equal(one[:max(upto, 0)], exp_all[:max(upto, 0)]):
                    i, got, exp = _first_diff(one[:upto], exp_all[:upto])
                    v('stored_1m_differs_from_normalised_input',
                      f'stored 1m row {i} = {got}, normalised input = {exp}', symbol=sym, row=i, fast=fast)
                elif upto < n:
                    got, exp = one[n - 1], ctx['bounds_1m'][sym][n - 1]
                    if _rows_equal(one[n - 1:n], exp_all[n - 1:n]):
                        pass
                    elif not (got[0] == exp[0] and exp[4] <= got[4] <= got[3] <= exp[3]
                              and got[4] <= got[2] <= got[3] and got[4] <= got[1] <= got[3]):
                        v('partial_1m_candle_outside_minute_bounds',
                          f'newest 1m row {got.tolist()} is neither the minute candle nor a part of it {exp.tolist()}',
                          symbol=sym)
                    else:
                        c('partial_1m_rows_seen')
        if tf == '1m':
            continue
        expected = gen.aggregate(one, tf)
        forming = len(one) % gen.TF_MIN[tf] != 0
        c('array_comparisons')
        c(f'tf:{tf}')
        if fast:
            c('fast_comparisons')
        if forming:
            c('forming_comparisons')
        midfill = ctx['midfill'].get((sym, tf), -1) == (int(one[-1, 0]) // (gen.TF_MIN[tf] * 60000) if len(one) else -2)
        if forming and fill_hook and len(one):
            ctx['midfill'][(sym, tf)] = int(one[-1, 0]) // (gen.TF_MIN[tf] * 60000)
            ctx['had_midfill'] = True
        if midfill:
            c('comparisons_after_midwindow_fill')
        try:
            got = np.array(strategy.get_candles(r['exchange'], sym, tf), copy=True)
        except Exception as ex:
            key = 'get_candles_raises'
            if isinstance(ex, IndexError) and len(one) < gen.TF_MIN[tf]:
                key = 'no_candle_before_first_window'
            v(key, f'get_candles({sym}, {tf}) raised {type(ex).__name__}: {ex} with {len(one)} 1m candles stored',
              symbol=sym, tf=tf, n1m=len(one))
            got = None
        if got is not None:
            if got.ndim != 2 or got.shape[0] != expected.shape[0]:
                key = 'wrong_number_of_candles'
                if len(got) == 0 and len(one) < gen.TF_MIN[tf]:
                    key = 'no_candle_before_first_window'
                v(key, f'get_candles({sym},{tf}) has {len(got)} rows, {len(expected)} windows started '
                       f'({len(one)} 1m candles)', symbol=sym, tf=tf, n1m=len(one))
            elif not _rows_equal(got, expected):
                i, g, e = _first_diff(got, expected)
                key = 'candle_differs_from_aggregation'
                if i == len(expected) - 1 and forming:
                    key = 'stale_partial_after_fill' if midfill else 'forming_candle_differs'
                v(key, f'get_candles({sym},{tf}) row {i}/{len(expected)} = {g}, aggregation of the 1m candles = {e}',
                  symbol=sym, tf=tf, n1m=len(one), forming=forming)
        try:
            cur = np.array(store.candles.get_current_candle(r['exchange'], sym, tf), copy=True)
            c('current_candle_comparisons')
            if len(expected) == 0:
                if cur.size != 0:
                    v('current_candle_without_window', f'{cur.tolist()}')
            elif cur.ndim != 1 or not _rows_equal(cur[None, :], expected[-1:]):
                v('current_candle_differs', f'get_current_candle({sym},{tf}) = {cur.tolist()}, aggregation = '
                                            f'{expected[-1].tolist()}', symbol=sym, tf=tf, n1m=len(one))
        except Exception as ex:
            v('get_current_candle_raises', f'{type(ex).__name__}: {ex}', symbol=sym, tf=tf)


def _helpers(job):
    from jesse.services import candle as cs
    import jesse.utils as ju
    import jesse.helpers as jh
    import jesse.modes.backtest_mode as bm
    from jesse.enums import timeframes
    rng = random.Random(job['seed'])
    viol, cnt = [], {}

    def v(key, msg, **w):
        viol.append({'key': key, 'msg': msg, 'witness': w})

    # timeframe tables
    for name in [x for x in dir(timeframes) if not x.startswith('_')]:
        tf = getattr(timeframes, name)
        unit = tf[-1]
        num = int(tf[:-1])
        exp = num * {'m': 1, 'h': 60, 'D': 1440, 'W': 10080, 'M': 43200}[unit]
        cnt['table_entries'] = cnt.get('table_entries', 0) + 1
        a = ju.timeframe_to_one_minutes(tf)
        b = bm.timeframe_to_one_minutes.get(tf)
        c3 = jh.timeframe_to_one_minutes(tf)
        if not (a == b == c3 == exp):
            v('timeframe_table_mismatch', f'{tf}: utils {a}, backtest_mode {b}, helpers {c3}, parsed {exp}', tf=tf)
    for _ in range(job['n']):
        tf = rng.choice(['3m', '5m', '15m', '30m', '45m', '1h', '2h', '3h', '4h'])
        k = gen.TF_MIN[tf]
        n = rng.choice([k, 2 * k, 3 * k + rng.randrange(k), rng.randrange(k, 6 * k)])
        c1 = gen.candles(gen.random_spec(rng, n, rng.choice(['walk', 'gappy', 'flatty', 'lattice'])))
        cnt['helper_cases'] = cnt.get('helper_cases', 0) + 1
        exp = gen.aggregate(c1, tf)
        complete = exp[:n // k]
        try:
            got = cs._get_generated_candles(tf, c1)
            if not (len(got) == len(complete) and (len(got) == 0 or _rows_equal(np.array(got), complete))):
                v('_get_generated_candles_differs', f'{tf} n={n}: {len(got)} rows vs {len(complete)}', tf=tf, n=n,
                  seed=job['seed'])
        except Exception as ex:
            v('_get_generated_candles_raises', repr(ex), tf=tf, n=n)
        try:
            g = cs.generate_candle_from_one_minutes(tf, c1[:k])
            if not _rows_equal(g[None, :], exp[:1]):
                v('generate_candle_from_one_minutes_differs', f'{g.tolist()} vs {exp[0].tolist()}', tf=tf)
            m = rng.randrange(1, k + 1)
            g = cs.generate_candle_from_one_minutes(tf, c1[:m], True)
            e = gen.aggregate(c1[:m], tf)
            if not _rows_equal(g[None, :], e[:1]):
                v('generate_candle_from_one_minutes_forming_differs', f'{g.tolist()} vs {e[0].tolist()}', tf=tf, m=m)
        except Exception as ex:
            v('generate_candle_from_one_minutes_raises', repr(ex), tf=tf)
    return {'viol': viol[:10], 'cnt': cnt, 'sigs': []}


def run_job(job):
    if job['kind'] == 'helpers':
        return _helpers(job)
    rng = random.Random(job['seed'])
    big = job.get('big')
    tfs = ['1m', '3m', '5m', '15m', '30m', '45m', '1h'] + (['2h', '3h', '4h'] if big else [])
    dts = ['3m', '5m', '15m', '30m', '45m', '1h', '2h'] + (['3h', '4h', '6h'] if big else [])
    minutes = rng.choice([301, 452, 600, 777]) if not big else rng.choice([1501, 2000, 2880])
    spec = specgen.random_session(rng, minutes=minutes, tfs=tfs, data_tfs=dts,
                                  warmup=rng.choice([0, 0, 240, 720]) if not job.get('warm') else 720,
                                  data_only=(job['i'] % 4 == 1))
    if job.get('huge'):
        # the long timeframes (1D, 3D, 1W, 1M) need a month of one-minute candles: one session per simulator and run
        spec = specgen.random_session(rng, minutes=rng.choice([44000, 46111]), tfs=['4h'], data_tfs=['1D', '3D', '1W', '1M'],
                                      warmup=0, nsym=1, fast=bool(job['fast']))
        spec['fast'] = bool(job['fast'])
        sym0 = spec['routes'][0]['symbol']
        spec['data_routes'] = [{'symbol': sym0, 'timeframe': t_} for t_ in ('1D', '3D', '1W', '1M')]
        for r in spec['routes']:
            r['timeframe'] = '4h'
            r['script']['p_enter'] = 0.05
        for cs_ in spec['candles'].values():
            cs_['t0'] = 89 * 302400 * 60000      # a session start aligned to the 3D, 1W and 1M (30-day) windows as well
    if job.get('liq'):
        # isolated margin at high leverage without stops: positions end in forced closes, whose callbacks read candles too (the
        # liquidation check runs at the end of a minute / chunk, before the strategies are executed)
        spec['config'] = {'starting_balance': 10000, 'fee': 0.0005, 'type': 'futures', 'futures_leverage': rng.choice([20, 50]),
                          'futures_leverage_mode': 'isolated'}
        for r in spec['routes']:
            r['script'].update(sl=None, entry='market', p_enter=0.5, on_reduced=None)
    if job.get('no_warm'):
        spec['warmup'] = 0
    if job.get('cb_market'):
        # fast simulator, multi-row exits, and the callback of every reducing fill scales back in with a MARKET order: that
        # order runs at the end of the minute of the fill, in the middle of a chunk, and its own callbacks read candles too
        spec['fast'] = True
        spec['config'] = {'starting_balance': 50000, 'fee': 0.001, 'type': 'futures', 'futures_leverage': 10,
                          'futures_leverage_mode': 'cross'}
        for r in spec['routes']:
            if r['timeframe'] == '1m':
                r['timeframe'] = rng.choice(['3m', '5m', '15m'])
            r['script'].update(on_reduced='add_market', sl_points=3, tp_points=2, sl=0.003, tp=0.004, p_enter=0.3,
                               exits_in='open', sides='both' if r['script'].get('sides') != 'long' else 'long')
    # lengths not multiples of the timeframe are wanted; warm-up must be aligned (specgen does that)
    allc = session.build_candles(spec)
    w = spec['warmup']
    step = 1
    if spec['fast']:
        step = int(np.gcd.reduce([gen.TF_MIN[r['timeframe']] for r in spec['routes']] +
                                 [gen.TF_MIN[d['timeframe']] for d in spec['data_routes']]))
    expect, bounds = {}, {}
    for sym, arr in allc.items():
        tr = arr[w:]
        nt = gen.normalise_fast(tr, step) if spec['fast'] else gen.normalise(tr)
        expect[sym] = np.concatenate([arr[:w], nt]) if w else nt
        # a partial candle published at a fill is a part of the fully open-normalised minute (both simulators)
        bounds[sym] = np.concatenate([arr[:w], gen.normalise(tr)]) if w else gen.normalise(tr)
    CTX.clear()
    CTX.update(on=True, cnt={}, viol=[], keys=set(), fast=bool(spec['fast']), expect_1m=expect, bounds_1m=bounds, midfill={},
               had_midfill=False)
    if monitor not in scripted.HOOK_MONITORS:
        scripted.HOOK_MONITORS.append(monitor)
    for r in spec['routes']:
        r['script']['observe'] = 'light'
    scratch = None
    if job.get('logs'):
        # the session log is switched on (generate_logs turns jesse's debug mode on: candle lines, order lines ... are
        # written while the simulation runs); log files go to a scratch working directory outside the trees
        import os
        import tempfile
        scratch = tempfile.mkdtemp(prefix='vf-c07-')
        _prev_cwd = os.getcwd()
        os.chdir(scratch)
        spec['options'] = {'generate_logs': True}
        CTX['cnt']['sessions_with_session_log'] = 1
    try:
        out = session.run_session(spec, candles=allc, keep_events=False, snapshots=False)
    finally:
        if scratch:
            import os
            import shutil
            os.chdir(env.CACHE + '/cwd' if os.path.isdir(env.CACHE + '/cwd') else env.VERIF)
            shutil.rmtree(scratch, ignore_errors=True)
    CTX['on'] = False
    cnt = CTX['cnt']
    cnt['sessions'] = 1
    cnt['sessions_fast' if spec['fast'] else 'sessions_step'] = 1
    if out['error']:
        cnt['sessions_aborted:' + out['error']['type'] + ':' + out['error']['msg'][:50]] = 1
    viol = CTX['viol']
    for x in viol:
        x['witness']['spec'] = spec
    tf_sig = sorted([r['timeframe'] for r in spec['routes']] + ['d' + d['timeframe'] for d in spec['data_routes']])
    sig = repr((bool(spec['fast']), w > 0, tf_sig, CTX['had_midfill']))
    res = {'viol': viol, 'cnt': cnt, 'sigs': [sig] if cnt.get('forming_comparisons') else []}
    if job['i'] < 3:
        res['sample'] = {'spec': {k: spec[k] for k in ('config', 'data_routes', 'warmup', 'fast')},
                         'routes': [(r['symbol'], r['timeframe']) for r in spec['routes']],
                         'comparisons': cnt.get('array_comparisons', 0), 'forming': cnt.get('forming_comparisons', 0)}
    return res


def make_jobs(tier, seed):
    rng = random.Random(70000 + seed)
    n = 260 if tier == 'quick' else 5000
    jobs = [{'kind': 'session', 'seed': rng.randrange(1 << 30), 'i': i, 'big': (i % 10 == 9),
             'no_warm': (i % 5 == 0), 'logs': (i % 6 == 2), 'cb_market': (i % 5 == 3), 'liq': (i % 10 == 7)} for i in range(n)]
    for i in range(2 if tier == 'quick' else 8):
        jobs.insert(0, {'kind': 'session', 'seed': rng.randrange(1 << 30), 'i': 100000 + i, 'huge': True, 'fast': i % 2 == 0,
                        'big': False, 'no_warm': True, 'logs': False, 'cb_market': False})
    for i in range(4 if tier == 'quick' else 40):
        jobs.append({'kind': 'helpers', 'seed': rng.randrange(1 << 30), 'n': 80})
    return jobs
