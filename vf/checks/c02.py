"""C02 - resting orders fill exactly when and where the price reaches them; market orders fill at once."""
import hashlib
import random

from .. import pathmon, session, specgen

PROP = 'C02'
RULE = ('random scripted sessions (spot/futures, 1-2 symbols, trading timeframes 1m-15m, ladders, SL/TP ladders, '
        'modifications, gappy/flat/lattice candles) run through research.backtest under the tracer; every fill, every '
        'end of a minute (step simulator) and every end of a chunk (fast simulator) is judged by the offline path checker. '
        'distinct = distinct sequence of (order type, side, fill/cancel) per session; non-trivial = the session has at least '
        'one resting-order fill.')
ASSUMPTIONS = ['the polyline O-L-H-C / O-H-L-C of the open-normalised minute candle is the reference intra-minute path',
               'fast simulator: the same polyline oracle minute by minute inside each chunk, plus per-chunk range checks',
               'minutes in which a session aborted with an exception are not judged']
MIN_OBS = {'orders_submitted_from_on_cancel': 20, 'orders_submitted_from_on_close_position': 200, 'fast_minute_end_evals': 5000, 'resting_fills': 500, 'resting_fills_fast': 100, 'fills_at_candle_extreme_or_open_close': 30,
           'fills_inside_gap': 20, 'market_fills': 100, 'minute_end_evals_with_resting': 1000, 'chunk_end_evals': 500}


def min_obs(tier):
    return MIN_OBS


def make_jobs(tier, seed):
    n = 320 if tier == 'quick' else 16000
    rng = random.Random(20000 + seed)
    return [{'kind': 'session', 'seed': rng.randrange(1 << 30), 'i': i} for i in range(n)]


def run_job(job):
    rng = random.Random(job['seed'])
    spec = specgen.random_session(rng, minutes=rng.choice([240, 360, 600]) if job['i'] % 4 else 900)
    cb = job['i'] % 3 == 1 and spec['config'].get('type') != 'spot'
    if cb:
        # the callback of every closing fill places a fresh resting order through the broker close to the fill price: the rest
        # of that minute / chunk often reaches it (the order books of the symbol have just been reset by the strategy layer)
        for r in spec['routes']:
            r['script'].update(on_close_broker=True, on_cancel_broker=0.5, cancel_policy='rnd',
                               on_close_broker_dist=rng.choice([0.0007, 0.0015, 0.003]),
                               sl=r['script'].get('sl') or 0.004, tp=r['script'].get('tp') or 0.004, p_enter=0.3)
    out = session.run_session(spec)
    if cb:
        n_cb = sum(1 for e in out['events'] if e['k'] == 'submit' and e.get('hook') == 'on_close_position')
    viol, cnt = pathmon.check(out['events'], out['candles'], out['warm'], bool(spec['fast']),
                              aborted=out['error'] is not None)
    cnt['sessions'] = 1
    if cb:
        cnt['orders_submitted_from_on_cancel'] = sum(1 for e in out['events'] if e['k'] == 'note' and e.get('what') == 'order_from_on_cancel')
        cnt['orders_submitted_from_on_close_position'] = n_cb
        cnt['fills_of_orders_submitted_from_on_close_position'] = len(
            {e['o'] for e in out['events'] if e['k'] == 'exec_ret' and e.get('status') == 'EXECUTED'} &
            {e['o'] for e in out['events'] if e['k'] == 'submit' and e.get('hook') == 'on_close_position'})
    cnt['sessions_fast' if spec['fast'] else 'sessions_step'] = 1
    if out['error']:
        cnt['sessions_aborted:' + out['error']['type'] + ':' + out['error']['msg'][:60]] = 1
    for x in viol:
        x['witness']['spec'] = spec
    sig = hashlib.sha1(repr([(e['k'], e.get('type'), e.get('side'), e.get('status')) for e in out['events']
                             if e['k'] in ('submit', 'exec_ret', 'cancel_ret')]).encode()).hexdigest()[:16]
    res = {'viol': viol[:20], 'cnt': cnt, 'sigs': [sig] if cnt.get('resting_fills') else []}
    if job['i'] < 3:
        res['sample'] = {'spec': spec, 'fills': cnt.get('resting_fills', 0), 'events': len(out['events'])}
    return res
