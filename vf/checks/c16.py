"""C16 - reported metrics are consistent with the trades and the equity series.

Part A (identities): metrics.trades() on synthetic lists of real ClosedTrade objects inside a prepared store, compared
        with a plain-Python recomputation from the trades' fills.
Part B (ratios): max drawdown, annual return, Sharpe, Sortino, Calmar, Omega recomputed in plain numpy from the daily
        balance list.
Part C (equity series): in multi-day sessions every sample appended by the daily sampler is compared with the equity
        of a shadow account (vf/models) fed only by the order events and priced at the input candles' closes.
"""
import math
import random
from fractions import Fraction as F

import numpy as np

from .. import direct, gen, models, session, specgen

PROP = 'C16'
RULE = ('A: synthetic trade lists (all wins, all losses, break-even trades, one trade, thousands, any long/short order, fee 0 and > 0); '
        'B: synthetic daily balance series (random, monotone, flat, with crashes; 2..400 days); C: multi-day scripted sessions '
        '(2-5 days, futures and spot, one and two routes in both orders, positions and resting orders across midnight). distinct = '
        'distinct (part, degenerate class / route layout / sequence of signs); non-trivial = >= 2 trades (A), >= 3 samples (B, C).')
ASSUMPTIONS = ['A trade is a winner iff its net PnL > 0, a loser iff < 0; break-even ends a streak',
               'drawdown is taken on the compounded return series (the starting equity is not a peak), as the quantstats-derived '
               'formula documents; Sortino downside deviation may count the initial sample in its denominator (both N and N-1 accepted)',
               'relative tolerance 1e-9 (ratios 1e-7)']
MIN_OBS = {'A_lists': 1500, 'A_degenerate_lists': 200, 'B_series': 400, 'C_sessions': 40, 'C_samples_compared': 120,
           'C_spot_two_route_sessions': 10, 'C_samples_with_open_position': 30,
           'C_market_orders_submitted_on_a_midnight_bar': 10, 'A_lists_with_overlapping_trades': 200}


def close(a, b, tol=1e-9):
    if a is None or b is None:
        return a is b
    a, b = float(a), float(b)
    if math.isnan(a) or math.isnan(b):
        return math.isnan(a) and math.isnan(b)
    if math.isinf(a) or math.isinf(b):
        return a == b
    return abs(a - b) <= tol * max(1.0, abs(a), abs(b))


# ------------------------------------------------------------------------------------------------ Part A
def _part_a(job):
    rng = random.Random(job['seed'])
    viol, cnt, sigs = [], {}, []
    fee = rng.choice([0, 0, 0.001, 0.0004])
    start = rng.choice([1000, 10000, 25000.5])
    cfg = {'starting_balance': start, 'fee': fee, 'type': 'futures', 'futures_leverage': 2, 'futures_leverage_mode': 'cross'}
    w = direct.World(cfg, ['BTC-USDT'])
    from jesse.models import ClosedTrade
    from jesse.services import metrics
    try:
        for case in range(job['n']):
            klass = rng.choice(['mixed', 'mixed', 'mixed', 'all_win', 'all_loss', 'break_even', 'single', 'big', 'be_mix'])
            n = {'single': 1, 'big': rng.choice([2000, 5000])}.get(klass, rng.randint(2, 60))
            trades, ref = [], []
            overlapping = rng.random() < 0.3
            if overlapping:
                cnt['A_lists_with_overlapping_trades'] = cnt.get('A_lists_with_overlapping_trades', 0) + 1
            for i in range(n):
                typ = rng.choice(['long', 'short'])
                qty = round(rng.uniform(0.01, 5), 3)
                entry = round(rng.uniform(50, 150), 2)
                kind = klass
                if klass == 'be_mix':
                    kind = rng.choice(['break_even', 'mixed', 'mixed'])
                if kind == 'break_even':
                    exit_ = entry
                elif kind == 'all_win':
                    exit_ = entry * (1.05 if typ == 'long' else 0.95)
                elif kind == 'all_loss':
                    exit_ = entry * (0.95 if typ == 'long' else 1.05)
                else:
                    exit_ = round(entry * (1 + rng.gauss(0, 0.03)), 2)
                t = ClosedTrade()
                t.id = f't{i}'
                t.strategy_name, t.symbol, t.exchange, t.type, t.timeframe = 'S', 'BTC-USDT', direct.EXCHANGE, typ, '1m'
                t.opened_at = gen.T0 + i * 600000
                t.closed_at = t.opened_at + rng.randint(1, 9) * 60000
                if overlapping:
                    # trades of several routes overlap: the list is in CLOSING order (what the session produces), the opening
                    # times are not
                    t.closed_at = gen.T0 + i * 600000 + 540000
                    t.opened_at = t.closed_at - rng.randint(1, 40) * 600000
                t.leverage = 2
                # two entry fills, one exit fill
                q1 = round(qty / 2, 4)
                q2 = qty - q1
                ents = [(q1, entry), (q2, entry)]
                (t.buy_orders if typ == 'long' else t.sell_orders).append(np.array([q1, entry]))
                (t.buy_orders if typ == 'long' else t.sell_orders).append(np.array([q2, entry]))
                (t.sell_orders if typ == 'long' else t.buy_orders).append(np.array([q1 + q2, exit_]))
                trades.append(t)
                qq = q1 + q2
                pnl = qq * (exit_ - entry) * (1 if typ == 'long' else -1) - fee * qq * (entry + exit_)
                ref.append({'type': typ, 'pnl': pnl, 'fee': fee * qq * (entry + exit_), 'hold': (t.closed_at - t.opened_at) / 1000})
            daily = [start, start * 1.01, start * 0.99]
            # a trade whose net PnL is zero in exact arithmetic but not in floats (profit == fee) has no defined sign
            if any(r['pnl'] != 0 and abs(r['pnl']) < 1e-9 * max(1.0, abs(r['fee'])) for r in ref):
                cnt['A_lists_ambiguous_sign_skipped'] = cnt.get('A_lists_ambiguous_sign_skipped', 0) + 1
                continue
            cnt['A_lists'] = cnt.get('A_lists', 0) + 1
            if klass not in ('mixed',):
                cnt['A_degenerate_lists'] = cnt.get('A_degenerate_lists', 0) + 1
            cnt[f'A_class:{klass}'] = cnt.get(f'A_class:{klass}', 0) + 1
            # the wallet of a session that closed these trades holds the starting balance plus their net PnL
            from jesse.store import store as _store
            _ex = _store.exchanges.storage[direct.EXCHANGE]
            _ex.assets['USDT'] = start + sum(r['pnl'] for r in ref)
            try:
                m = metrics.trades(trades, daily)
            except Exception as ex:
                viol.append({'key': f'metrics_raises:{type(ex).__name__}:{klass}', 'msg': repr(ex),
                             'witness': {'class': klass, 'n': n, 'fee': fee}})
                continue
            pn = [r['pnl'] for r in ref]
            W = [p for p in pn if p > 0]
            L = [p for p in pn if p < 0]
            exp = {'total': n, 'total_winning_trades': len(W), 'total_losing_trades': len(L),
                   'net_profit': sum(pn), 'gross_profit': sum(W), 'gross_loss': sum(L),
                   'net_profit_percentage': sum(pn) / start * 100, 'fee': sum(r['fee'] for r in ref),
                   'longs_count': sum(1 for r in ref if r['type'] == 'long'),
                   'shorts_count': sum(1 for r in ref if r['type'] == 'short'),
                   'largest_winning_trade': max(W) if W else 0, 'largest_losing_trade': min(L) if L else 0,
                   'starting_balance': start, 'finishing_balance': start + sum(pn)}
            exp['longs_percentage'] = exp['longs_count'] / n * 100
            exp['shorts_percentage'] = exp['shorts_count'] / n * 100
            wr = len(W) / (len(W) + len(L)) if (W or L) else None
            s, smax, smin = 0, 0, 0
            for p in pn:
                if p > 0:
                    s = s + 1 if s > 0 else 1
                elif p < 0:
                    s = s - 1 if s < 0 else -1
                else:
                    s = 0
                smax, smin = max(smax, s), min(smin, s)
            exp['winning_streak'], exp['losing_streak'], exp['current_streak'] = smax, -smin, s

            def bad(key, msg):
                viol.append({'key': key, 'msg': f'{msg} (class {klass}, {n} trades, fee {fee})',
                             'witness': {'class': klass, 'n': n, 'fee': fee, 'pnls_head': pn[:12], 'types_head': [r['type'] for r in ref[:12]]}})

            for k_, v_ in exp.items():
                if k_ not in m:
                    bad(f'metric_missing:{k_}', f'{k_} not reported')
                elif not close(m[k_], v_, 1e-9 if n < 500 else 1e-7):
                    bad(f'metric_differs:{k_}', f'{k_} = {m[k_]}, recomputed {v_}')
            if wr is None:
                if not (m['win_rate'] == 0 or (isinstance(m['win_rate'], float) and math.isnan(m['win_rate']))):
                    bad('metric_differs:win_rate', f'win_rate {m["win_rate"]} with no winners and no losers')
            elif not close(m['win_rate'], wr):
                bad('metric_differs:win_rate', f'win_rate = {m["win_rate"]}, W/(W+L) = {wr}')
            if not close(m['net_profit'], m['gross_profit'] + m['gross_loss'], 1e-9 if n < 500 else 1e-7):
                bad('identity:net=gross_profit+gross_loss', f'{m["net_profit"]} != {m["gross_profit"]} + {m["gross_loss"]}')
            if m['longs_count'] + m['shorts_count'] != m['total'] or not close(m['longs_percentage'] + m['shorts_percentage'], 100):
                bad('identity:longs+shorts', f'{m["longs_count"]}+{m["shorts_count"]} vs {m["total"]}; '
                                             f'{m["longs_percentage"]}+{m["shorts_percentage"]}')
            if W:
                aw = sum(W) / len(W)
                if not close(m['average_win'], aw):
                    bad('metric_differs:average_win', f'{m["average_win"]} vs {aw}')
            if L:
                al = abs(sum(L) / len(L))
                if not close(m['average_loss'], al):
                    bad('metric_differs:average_loss', f'{m["average_loss"]} vs {al}')
            if wr is not None:
                aw = sum(W) / len(W) if W else 0
                al = abs(sum(L) / len(L)) if L else 0
                ex_ = aw * wr - al * (1 - wr)
                if not close(m['expectancy'], ex_):
                    bad('metric_differs:expectancy', f'{m["expectancy"]} vs {ex_}')
            ah = sum(r['hold'] for r in ref) / n
            if not close(m['average_holding_period'], ah):
                bad('metric_differs:average_holding_period', f'{m["average_holding_period"]} vs {ah}')
            if n >= 2:
                sigs.append(repr((klass, fee > 0, tuple(1 if p > 0 else -1 if p < 0 else 0 for p in pn[:16]))))
    finally:
        w.close()
    return {'viol': _dedup(viol), 'cnt': cnt, 'sigs': sigs,
            'sample': {'part': 'A', 'fee': fee, 'starting_balance': start, 'lists': cnt.get('A_lists')} if job['i'] == 0 else None}


# ------------------------------------------------------------------------------------------------ Part B
def _ref_ratios(E):
    E = np.array(E, dtype=float)
    r = E[1:] / E[:-1] - 1
    n = len(E)
    prices = np.cumprod(1 + r)
    runmax = np.maximum.accumulate(prices)
    mdd = (prices / runmax).min() - 1
    years = (n - 1) / 365
    last = prices[-1]
    cagr = last ** (1 / years) - 1 if years else 0.0
    mean = r.mean()
    sd = r.std(ddof=1) if len(r) > 1 else float('nan')
    sharpe = mean / sd * math.sqrt(365) if sd == sd else float('nan')
    neg = r[r < 0]
    out = {'max_drawdown': mdd * 100, 'annual_return': cagr * 100, 'sharpe_ratio': sharpe,
           'calmar_ratio': (cagr / abs(mdd)) if mdd != 0 else 0.0}
    sort = []
    for N in (len(r), len(r) + 1):
        dd = math.sqrt((neg ** 2).sum() / N)
        if dd == 0:
            sort.append(math.inf if mean > 0 else -math.inf)
        else:
            sort.append(mean / dd * math.sqrt(365))
    out['sortino_ratio'] = sort
    pos, ng = r[r > 0].sum(), -r[r < 0].sum()
    out['omega_ratio'] = pos / ng if ng > 0 else float('nan')
    return out


def _part_b(job):
    rng = random.Random(job['seed'])
    viol, cnt, sigs = [], {}, []
    cfg = {'starting_balance': 10000, 'fee': 0, 'type': 'futures', 'futures_leverage': 1, 'futures_leverage_mode': 'cross'}
    w = direct.World(cfg, ['BTC-USDT'])
    from jesse.models import ClosedTrade
    from jesse.services import metrics
    t = ClosedTrade()
    t.id = 't'
    t.strategy_name, t.symbol, t.exchange, t.type, t.timeframe = 'S', 'BTC-USDT', direct.EXCHANGE, 'long', '1m'
    t.opened_at, t.closed_at, t.leverage = gen.T0, gen.T0 + 60000, 1
    t.buy_orders.append(np.array([1.0, 100.0]))
    t.sell_orders.append(np.array([1.0, 101.0]))
    try:
        for case in range(job['n']):
            klass = rng.choice(['walk', 'walk', 'up', 'down', 'flat', 'crash', 'short', 'recover'])
            n = rng.randint(3, 400) if klass != 'short' else rng.choice([2, 3])
            E = [10000.0]
            for i in range(n - 1):
                if klass == 'walk':
                    f = 1 + rng.gauss(0.0005, 0.02)
                elif klass == 'up':
                    f = 1 + abs(rng.gauss(0, 0.01)) + 1e-6
                elif klass == 'down':
                    f = 1 - abs(rng.gauss(0, 0.01)) - 1e-6
                elif klass == 'flat':
                    f = 1.0
                elif klass == 'crash':
                    f = 0.3 if i == n // 2 else 1 + rng.gauss(0.001, 0.005)
                elif klass == 'recover':
                    f = 0.9 if i < n // 2 else 1.12
                else:
                    f = 1 + rng.gauss(0, 0.02)
                E.append(max(E[-1] * f, 1e-6))
            cnt['B_series'] = cnt.get('B_series', 0) + 1
            cnt[f'B_class:{klass}'] = cnt.get(f'B_class:{klass}', 0) + 1
            m = metrics.trades([t], list(E))
            ref = _ref_ratios(E)

            def bad(key, msg):
                viol.append({'key': key, 'msg': f'{msg} (series class {klass}, {n} samples)',
                             'witness': {'class': klass, 'n': n, 'balances_head': E[:10]}})

            for k_ in ('max_drawdown', 'annual_return', 'sharpe_ratio', 'calmar_ratio', 'omega_ratio'):
                a, b = m[k_], ref[k_]
                if isinstance(b, float) and (math.isnan(b) or math.isinf(b)):
                    if not (isinstance(a, float) and (math.isnan(a) or math.isinf(a) or abs(a) > 1e12)):
                        bad(f'ratio_differs:{k_}', f'{k_} = {a}, reference undefined ({b})')
                elif klass == 'flat' and k_ in ('sharpe_ratio',):
                    pass
                elif not close(a, b, 1e-7):
                    bad(f'ratio_differs:{k_}', f'{k_} = {a}, reference {b}')
            a = m['sortino_ratio']
            if not any(close(a, b, 1e-7) for b in ref['sortino_ratio']):
                bad('ratio_differs:sortino_ratio', f'sortino = {a}, reference (N or N+1 in the denominator) {ref["sortino_ratio"]}')
            if isinstance(m['max_drawdown'], float) and m['max_drawdown'] > 1e-12:
                bad('max_drawdown_positive', f'max_drawdown = {m["max_drawdown"]}')
            if n >= 3:
                sigs.append(repr((klass, n // 50, tuple(np.sign(np.diff(E[:12])).astype(int)))))
    finally:
        w.close()
    return {'viol': _dedup(viol), 'cnt': cnt, 'sigs': sigs,
            'sample': {'part': 'B', 'series': cnt.get('B_series')} if job['i'] == 0 else None}


# ------------------------------------------------------------------------------------------------ Part C
def _part_c(job):
    rng = random.Random(job['seed'])
    spot = job['spot']
    days = rng.choice([2, 2, 3, 4])
    minutes = days * 1440 + rng.choice([0, 0, 137, 720])
    spec = specgen.random_session(rng, minutes=minutes, exch_type='spot' if spot else 'futures', nsym=job['nsym'],
                                  tfs=['5m', '15m', '30m'], data_tfs=[], warmup=0, fast=job['fast'],
                                  family=rng.choice(['walk', 'trend', 'gappy']))
    spec['data_routes'] = []
    for r in spec['routes']:
        sc = r['script']
        sc['observe'] = 'light'
        sc['p_enter'] = 0.3
        sc['entry'] = rng.choice(['limit', 'ladder', 'market', 'limit', 'stop', 'mixed'])
        sc['entry_dist'] = rng.choice([0.002, 0.01, 0.03])
        sc['cancel_policy'] = rng.choice(['never', 'rnd'])
        sc['sl'], sc['tp'] = rng.choice([0.02, 0.05]), rng.choice([0.02, 0.05])
        sc['size_frac'] = rng.choice([0.1, 0.25])
        if job['i'] % 2 == 0:
            sc['read_metrics'] = rng.choice([7, 40, 150])     # the strategy looks at self.metrics while the session runs
    if job.get('resting_buy_route') is not None and spot and job['nsym'] == 2:
        # one route keeps a far-away resting buy (reserved quote) across midnight
        sc = spec['routes'][job['resting_buy_route']]['script']
        # (a far-away LIMIT buy below the price or a far-away STOP buy above it: both reserve quote at submission)
        sc.update(entry=rng.choice(['limit', 'stop']), entry_dist=0.2, cancel_policy='never', p_enter=1.0)
    if job['i'] % 4 == 1:
        # MARKET entries submitted exactly on the bar that closes at midnight: the order is executed at the end of that minute,
        # after the route's active-order list was pruned, and the daily sample is taken right afterwards
        r0 = spec['routes'][0]
        if job['i'] % 8 == 1:
            r0['timeframe'] = '1m'          # (the daily sample is taken after minute 1440 k: a 1m route decides on that very minute)
            idxs = [1440 * k_ + d_ for k_ in range(1, days + 1) for d_ in (-1, 0)]
        else:
            per_day = 1440 // gen.TF_MIN[r0['timeframe']]
            idxs = [per_day * k_ - 1 for k_ in range(1, days + 1)]
        r0['script'].update(entry='market', enter_at=idxs, enter_side='long', sides='long', sl=0.004, tp=0.004)
        midnight_entries = True
    else:
        midnight_entries = False
    if job.get('swap') and len(spec['routes']) == 2:
        spec['routes'] = spec['routes'][::-1]
    spec['options'] = {'generate_equity_curve': True}
    out = session.run_session(spec, snapshots=False)
    viol, cnt = [], {'C_sessions': 1}
    if midnight_entries:
        cnt['C_market_orders_submitted_on_a_midnight_bar'] = sum(
            1 for e in out['events'] if e['k'] == 'submit' and e['type'] == 'MARKET' and (e['t'] - gen.T0) % 86400000 in (0, 60000))
    if spot and job['nsym'] == 2:
        cnt['C_spot_two_route_sessions'] = 1
    if out['error']:
        cnt['C_sessions_aborted:' + out['error']['type']] = 1
    cfg = spec['config']
    syms = [r['symbol'] for r in spec['routes']]
    closes = {s: out['candles'][s][:, 2] for s in syms}
    t_start = gen.T0
    mdl = models.AccountSpot(cfg['starting_balance'], cfg['fee'], syms) if spot else \
        models.AccountFutures(cfg['starting_balance'], cfg['futures_leverage'], cfg['fee'], syms)
    book, calls = {}, {}
    samples = []
    n_min = len(next(iter(closes.values())))

    def v(key, msg, **w_):
        w_['spec'] = spec
        viol.append({'key': key, 'msg': msg, 'witness': w_})

    for e in out['events']:
        k = e['k']
        if k == 'submit':
            book[e['o']] = e
            if spot:
                mdl.submit(e['o'], e['symbol'], e['side'], e['type'], abs(e['qty']), e['price'])
            else:
                mdl.submit(e['o'], e['symbol'], e['side'], e['qty'], e['price'], e['reduce_only'])
        elif k == 'cancel_ret' and e['status'] == 'CANCELED':
            mdl.cancel(e['o'])
        elif k == 'exec_call':
            calls[e['o']] = e
        elif k == 'exec_ret' and e['status'] == 'EXECUTED' and calls.get(e['o'], {}).get('status') == 'ACTIVE':
            if spot:
                mdl.fill(e['o'], e['symbol'], e['side'], e['type'], e['qty'], e['price'])
            else:
                mdl.fill(e['o'], e['symbol'], e['side'], e['qty'], e['price'], e['reduce_only'])
        elif k == 'daily':
            i = int((e['t'] - t_start) // 60000) - 1
            i = max(0, min(i, n_min - 1))
            if e.get('initial') or not samples:
                eq = float(cfg['starting_balance'])
                open_pos = False
            elif spot:
                eq = float(mdl.quote)
                eq += sum(float(F(models.D(o[3])) * F(o[4])) for o in mdl.resting.values() if o[1] == 'buy')
                eq += sum(float(mdl.base[s]) * closes[s][i] for s in syms)
                open_pos = any(mdl.base[s] > 0 for s in syms)
            else:
                eq = float(mdl.wallet)
                for s in syms:
                    if mdl.qty[s] != 0:
                        eq += float((F(float(closes[s][i])) - mdl.entry[s]) * F(mdl.qty[s]))
                open_pos = any(mdl.qty[s] != 0 for s in syms)
            samples.append(e['value'])
            cnt['C_samples_compared'] = cnt.get('C_samples_compared', 0) + 1
            if open_pos:
                cnt['C_samples_with_open_position'] = cnt.get('C_samples_with_open_position', 0) + 1
            if spot and any(o[1] == 'buy' for o in mdl.resting.values()):
                cnt['C_samples_with_resting_buy'] = cnt.get('C_samples_with_resting_buy', 0) + 1
            if not close(e['value'], eq, 1e-7):
                key = 'equity_sample_differs'
                if spot and len(syms) == 2:
                    # the sample counts the reserved quote of one route only (the route whose position object comes first in
                    # the store): is the difference exactly the quote reserved by the resting buys of the other route?
                    for first in syms:
                        other = sum(float(F(models.D(o[3])) * F(o[4])) for o in mdl.resting.values()
                                    if o[1] == 'buy' and o[0] != first)
                        if other and close(e['value'] + other, eq, 1e-7):
                            key = 'spot_equity_ignores_other_routes_reserved'
                v(key, f'daily sample #{len(samples) - 1} at minute {i} = {e["value"]}, shadow account equity = {eq}',
                  sample_index=len(samples) - 1)
    if out['error'] is None:
        want = math.ceil(n_min / 1440) + 1
        if len(samples) != want:
            v('equity_series_length', f'{len(samples)} samples for {n_min} simulated minutes, expected {want}')
        if samples and not close(samples[0], cfg['starting_balance']):
            v('equity_series_does_not_start_at_starting_balance', f'{samples[0]} vs {cfg["starting_balance"]}')
        # the series that is REPORTED (equity curve of the result; the return-based metrics are computed from the same list)
        # is the list of those samples - nothing else may have been written into it while the session ran
        curve = (out['result'] or {}).get('equity_curve')
        if curve:
            rep = [float(x['value']) for x in curve[0]['data']]
            cnt['C_reported_curve_checks'] = 1
            if len(rep) != len(samples) or any(not close(a_, b_, 1e-9) for a_, b_ in zip(rep, samples)):
                v('reported_equity_curve_differs_from_daily_samples',
                  f'the result reports {len(rep)} equity samples {rep[:6]}, the session took {len(samples)} samples {samples[:6]}')
        if len(samples) >= 2:
            # ... and it ends at the final portfolio value: the shadow account after EVERY event of the session (forced close
            # of open positions and its fee included), marked at the last close
            i = n_min - 1
            if spot:
                eq = float(mdl.quote)
                eq += sum(float(F(models.D(o[3])) * F(o[4])) for o in mdl.resting.values() if o[1] == 'buy')
                eq += sum(float(mdl.base[s]) * closes[s][i] for s in syms)
            else:
                eq = float(mdl.wallet)
                for s in syms:
                    if mdl.qty[s] != 0:
                        eq += float((F(float(closes[s][i])) - mdl.entry[s]) * F(mdl.qty[s]))
            cnt['C_final_value_checks'] = 1
            if not close(samples[-1], eq, 1e-7):
                v('equity_series_does_not_end_at_final_portfolio_value',
                  f'last sample {samples[-1]}, account equity after the last event of the session {eq}')
    sig = repr(('C', spot, job['nsym'], job['fast'], bool(job.get('swap')), len(samples)))
    res = {'viol': _dedup(viol), 'cnt': cnt, 'sigs': [sig] if len(samples) >= 3 else []}
    if job['i'] < 2:
        res['sample'] = {'part': 'C', 'spot': spot, 'routes': [(r['symbol'], r['timeframe']) for r in spec['routes']],
                         'minutes': n_min, 'samples': samples[:6]}
    return res


def _dedup(viol):
    seen, out = set(), []
    for x in viol:
        if x['key'] not in seen:
            seen.add(x['key'])
            out.append(x)
    return out


def run_job(job):
    return {'A': _part_a, 'B': _part_b, 'C': _part_c}[job['kind']](job)


def make_jobs(tier, seed):
    rng = random.Random(160000 + seed)
    jobs = []
    for i in range(32 if tier == 'quick' else 1200):
        jobs.append({'kind': 'A', 'seed': rng.randrange(1 << 30), 'n': 60, 'i': i})
    for i in range(16 if tier == 'quick' else 600):
        jobs.append({'kind': 'B', 'seed': rng.randrange(1 << 30), 'n': 60, 'i': i})
    nC = 64 if tier == 'quick' else 3000
    for i in range(nC):
        spot = i % 2 == 1
        nsym = 2 if i % 4 in (1, 2) else 1
        jobs.append({'kind': 'C', 'seed': rng.randrange(1 << 30), 'i': i, 'spot': spot, 'nsym': nsym, 'fast': i % 3 == 0,
                     'swap': i % 8 >= 4, 'resting_buy_route': (i // 2) % 2 if spot and nsym == 2 else None})
    return jobs
