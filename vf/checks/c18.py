"""C18 - DynamicNumpyArray behaves like a growing list of rows.

Online shadow-model monitor: every operation is applied to the real DynamicNumpyArray and to a plain
Python list of rows (unique row values, so a read identifies the write it observed); after every
operation the whole observable state is read back (len, every index in [-n-1, n], every (start, stop)
pair in [-n-2, n+2] u {None}, get_last_item, get_past_item) and compared.
"""
import hashlib
import itertools
import random

import numpy as np

PROP = 'C18'
RULE = ('operation histories over {append, append_multiple(1..k), delete(first/middle/last; non-negative indices only: the statement names negative indices for indexing and slicing, not for deletion), flush, '
        'item assignment, equal-length slice assignment} applied to the real array and a list model, full read-back '
        'after every operation; bounded-exhaustive over a reduced alphabet for bucket sizes 2 and 3 (DFS over all '
        'sequences up to the stated length) plus seeded random histories up to 300 operations over bucket sizes '
        '{1,2,3,5,10,60} with and without drop_at. distinct = distinct (bucket, drop_at, operation-kind sequence); '
        'non-trivial = the history crosses a bucket boundary or contains a deletion.')
ASSUMPTIONS = ['rows are float vectors of width 2 or 6; only operations that are valid on the list model are generated, '
               'except out-of-range single-index reads, where an IndexError is required',
               'with drop_at the model is: contents are a suffix of the full list and include the newest row; an append (single '
               'or bulk) that brings the length to a multiple of drop_at discards the oldest drop_at // 2 rows and nothing else '
               'ever discards (the policy the ticker / trade / orderbook stores are sized for)']
MIN_OBS = {'setslice_bounds_beyond_length': 50, 'bulk_appends_of_no_rows': 10, 'bulk_appends_of_blank_rows': 10, 'bulk_appends_into_empty': 100, 'ops': 5000, 'slice_reads': 100000, 'index_reads': 20000, 'bucket_crossings': 500, 'deletes': 500,
           'append_after_delete': 300, 'negative_slice_start_reads': 5000, 'setitem_ops': 200}
EXHAUSTIVE_NOTE = 'DFS jobs enumerate every sequence over their alphabet up to their depth (see samples of kind dfs)'


class Viol(Exception):
    def __init__(self, key, msg):
        self.key, self.msg = key, msg


def _rows(x):
    return np.array(x, dtype=float)


class Harness:
    def __init__(self, bucket, width, drop_at=None):
        from jesse.libs import DynamicNumpyArray
        self.a = DynamicNumpyArray((bucket, width), drop_at) if drop_at else DynamicNumpyArray((bucket, width))
        self.full = []          # every row ever appended and not deleted/flushed
        self.m = []             # model contents (== full unless drop_at)
        self.bucket, self.width, self.drop_at = bucket, width, drop_at
        self.uid = 0
        self.hist = []
        self.cnt = {}
        self.deleted_before = False
        self.max_len = 0
        self.notes = {}

    def c(self, k, n=1):
        self.cnt[k] = self.cnt.get(k, 0) + n

    def note(self, key, msg):
        # read-only disagreement: the state is still in step with the model, so keep going;
        # remember the first witness per mechanism
        if key not in self.notes:
            self.notes[key] = {'key': key, 'msg': msg,
                               'witness': {'bucket': self.bucket, 'drop_at': self.drop_at,
                                           'history': list(self.hist[-40:]), 'history_len': len(self.hist)}}

    def new_row(self):
        self.uid += 1
        return [float(self.uid * 10 + j) for j in range(self.width)]

    # ---- operations -------------------------------------------------------------------------
    def op_append(self):
        r = self.new_row()
        self.hist.append(['A'])
        try:
            self.a.append(_rows(r))
        except Exception as e:
            raise Viol('append_raises_after_delete' if self.deleted_before else 'append_raises',
                       f'append raised {e!r} at len {len(self.m)}')
        self._model_append([r], single=True)
        if self.deleted_before:
            self.c('append_after_delete')

    def op_append_self(self, idx):
        # append a row that was READ from the array itself (reads hand out views of the buffer): a list appends the value read
        self.hist.append(['AS', idx])
        want = list(self.m[idx])
        try:
            self.a.append(self.a[idx])
        except Exception as e:
            raise Viol('append_raises', f'append(a[{idx}]) raised {e!r} at len {len(self.m)}')
        self._model_append([want], single=True)
        self.c('append_self_read_rows')

    def op_append_multiple_self(self, start, stop):
        self.hist.append(['MS', start, stop])
        want = [list(r) for r in self.m[start:stop]]
        if not want:
            return
        try:
            self.a.append_multiple(self.a[start:stop])
        except Exception as e:
            raise Viol('append_multiple_raises', f'append_multiple(a[{start}:{stop}]) raised {e!r} at len {len(self.m)}')
        self._model_append(want)
        self.c('append_self_read_rows')

    def op_append_multiple(self, k, blank=False):
        rs = [self.new_row() for _ in range(k)]
        if blank:
            rs = [[0.0] * self.width for _ in range(k)]      # rows reserved for later assignment: all zeros are rows too
        self.hist.append(['M', k])
        try:
            self.a.append_multiple(_rows(rs) if k else np.zeros((0, self.width)))
        except Exception as e:
            raise Viol('append_multiple_raises_after_delete' if self.deleted_before else 'append_multiple_raises',
                       f'append_multiple({k}) raised {e!r} at len {len(self.m)}')
        self._model_append(rs)
        if self.deleted_before:
            self.c('append_after_delete')

    def _model_append(self, rs, single=False):
        before = len(self.m)
        self.full.extend(rs)
        if self.drop_at:
            # contents must be a suffix of full that includes the newest rows; adopt the array's length
            n = len(self.a)
            if n < len(rs) and n < 1:
                raise Viol('drop_at_lost_newest', f'len {n} after appending {len(rs)} rows')
            if n > len(self.full):
                raise Viol('len_mismatch', f'len {n} > rows ever appended {len(self.full)}')
            if len(self.full) < self.drop_at and n != len(self.full):
                raise Viol('drop_at_dropped_too_early', f'len {n} but only {len(self.full)} rows < drop_at {self.drop_at}')
            # drop-oldest policy of the structure: an append (single or bulk) that brings the length to a multiple of drop_at
            # discards the oldest drop_at // 2 rows; no other operation discards
            new_len = before + len(rs)
            exp_drop = self.drop_at // 2 if (new_len != 1 and new_len % self.drop_at == 0) else 0
            self.c('drop_policy_checks')
            if n != before + len(rs) - exp_drop:
                raise Viol('drop_at_discards_wrong_number_of_rows',
                           f'length {before} + {len(rs)} appended ({"single" if single else "bulk"}) with drop_at {self.drop_at}: '
                           f'{before + len(rs) - n} rows discarded, the drop-oldest policy discards {exp_drop}')
            self.m = self.full[len(self.full) - n:] if n else []
            if n < before + len(rs):
                self.c('drops')
        else:
            self.m.extend(rs)
        if (before // self.bucket) != (len(self.m) // self.bucket):
            self.c('bucket_crossings')
        self.max_len = max(self.max_len, len(self.m))

    def op_delete(self, idx):
        self.hist.append(['X', idx])
        try:
            self.a.delete(idx, axis=0)
        except Exception as e:
            raise Viol('delete_raises', f'delete({idx}) raised {e!r} at len {len(self.m)}')
        del self.m[idx]
        self.full = list(self.m)
        self.deleted_before = True
        self.c('deletes')

    def op_flush(self):
        self.hist.append(['F'])
        try:
            self.a.flush()
        except Exception as e:
            raise Viol('flush_raises', f'flush raised {e!r}')
        self.m, self.full = [], []
        self.deleted_before = False
        self.c('flushes')

    def op_setitem(self, idx):
        r = self.new_row()
        self.hist.append(['S', idx])
        try:
            self.a[idx] = _rows(r)
        except Exception as e:
            raise Viol('setitem_raises', f'a[{idx}]=row raised {e!r} at len {len(self.m)}')
        self.m[idx] = r
        self.full = list(self.m) if not self.drop_at else self.full[:len(self.full) - len(self.m)] + self.m
        self.c('setitem_ops')

    def op_setslice(self, start, stop):
        n = len(self.m)
        k = len(self.m[start:stop])
        rs = [self.new_row() for _ in range(k)]
        self.hist.append(['SS', start, stop])
        try:
            self.a[start:stop] = _rows(rs).reshape(k, self.width)
        except Exception as e:
            key = 'setslice_raises'
            if start is None:
                key = 'setslice_raises_start_none'
            raise Viol(key, f'a[{start}:{stop}]=rows({k}) raised {e!r} at len {n}')
        self.m[start:stop] = rs
        self.full = list(self.m) if not self.drop_at else self.full[:len(self.full) - len(self.m)] + self.m
        self.c('setitem_ops')

    # ---- read-back ---------------------------------------------------------------------------
    def readback(self, full=True, rng=None):
        a, m = self.a, self.m
        n = len(m)
        if len(a) != n:
            raise Viol('len_mismatch', f'len {len(a)} != model {n}')
        self.c('readbacks')
        # single indices
        for i in range(-n - 2, n + 2):
            valid = -n <= i < n
            try:
                got = a[i]
            except IndexError:
                if valid:
                    self.note('getitem_valid_raises', f'a[{i}] raised IndexError at len {n}')
                self.c('oob_reads_rejected')
                continue
            except Exception as e:
                self.note('getitem_raises_other', f'a[{i}] raised {e!r} at len {n}')
                continue
            if not valid:
                self.note('getitem_oob_accepted', f'a[{i}] returned {got!r} at len {n}')
                continue
            self.c('index_reads')
            if list(map(float, got)) != m[i]:
                self.note('getitem_index_mismatch', f'a[{i}] = {list(got)} expected {m[i]} at len {n}')
        # last / past
        try:
            got = a.get_last_item()
            if n == 0:
                self.note('get_last_item_on_empty', f'returned {got!r}')
            elif list(map(float, got)) != m[-1]:
                self.note('get_last_item_mismatch', f'{list(got)} expected {m[-1]}')
        except IndexError:
            if n:
                self.note('get_last_item_raises', f'IndexError at len {n}')
        for k in range(0, n + 1):
            try:
                got = a.get_past_item(k)
            except IndexError:
                if k < n:
                    self.note('get_past_item_raises', f'get_past_item({k}) IndexError at len {n}')
                continue
            if k >= n:
                self.note('get_past_item_oob_accepted', f'get_past_item({k}) returned at len {n}')
            elif list(map(float, got)) != m[-1 - k]:
                self.note('get_past_item_mismatch', f'get_past_item({k}) = {list(got)} expected {m[-1 - k]}')
        # slices
        bounds = [None] + list(range(-n - 2, n + 3))
        pairs = [(s, e) for s in bounds for e in bounds]
        if not full and len(pairs) > 150:
            pairs = rng.sample(pairs, 150)
        for s, e in pairs:
            exp = m[s:e]
            try:
                got = a[s:e]
            except Exception as ex:
                self.note('getitem_slice_raises', f'a[{s}:{e}] raised {ex!r} at len {n}')
                continue
            self.c('slice_reads')
            if s is not None and s < 0:
                self.c('negative_slice_start_reads')
            got_l = [list(map(float, r)) for r in got]
            if got_l != exp:
                if s is not None and s < -n:
                    key = 'getitem_slice_start_below_minus_len'
                elif s is not None and s < 0:
                    key = 'getitem_slice_negative_start'
                elif e is not None and e < -n:
                    key = 'getitem_slice_stop_below_minus_len'
                elif e is not None and e < 0:
                    key = 'getitem_slice_negative_stop'
                else:
                    key = 'getitem_slice_mismatch'
                self.note(key, f'a[{s}:{e}] returned {len(got_l)} rows {got_l[:4]} expected {len(exp)} rows {exp[:4]} '
                                f'at len {n} (bucket {self.bucket})')


def _sig(bucket, drop_at, hist):
    s = f'{bucket}|{drop_at}|' + ''.join(h[0] for h in hist)
    return hashlib.sha1(s.encode()).hexdigest()[:16]


# ------------------------------------------------------------------------------------------------
def _dfs(job):
    import copy
    bucket, depth, alphabet = job['bucket'], job['depth'], job['alphabet']
    first = job['first']          # the first op of this sub-tree (work split)
    out = {'viol': [], 'cnt': {}, 'sigs': [], 'sample': None}
    seen_keys = set()
    total = [0]

    def apply(h, op):
        if op == 'A':
            h.op_append()
        elif op[0] == 'M':
            h.op_append_multiple(int(op[1:]))
        elif op == 'X0':
            h.op_delete(0)
        elif op == 'XL':
            h.op_delete(len(h.m) - 1)
        elif op == 'X-1':
            h.op_delete(-1)
        elif op == 'Xm':
            h.op_delete(len(h.m) // 2)
        elif op == 'F':
            h.op_flush()
        elif op == 'S0':
            h.op_setitem(0)
        elif op == 'S-1':
            h.op_setitem(-1)
        elif op == 'SS':
            h.op_setslice(-min(2, len(h.m)), None)

    def legal(h, op):
        if op[0] in 'XS':
            return len(h.m) > 0
        return True

    def merge(h):
        for k, v in h.cnt.items():
            out['cnt'][k] = out['cnt'].get(k, 0) + v
        h.cnt = {}

    def rec(h, d):
        for op in alphabet:
            if d == 0 and op != first:
                continue
            if not legal(h, op):
                continue
            h2 = copy.deepcopy(h)
            total[0] += 1
            try:
                apply(h2, op)
                h2.c('ops')
                h2.readback(full=len(h2.m) <= 7, rng=random.Random(total[0]))
            except Viol as v:
                merge(h2)
                if v.key not in seen_keys or len(out['viol']) < 3:
                    seen_keys.add(v.key)
                    out['viol'].append({'key': v.key, 'msg': v.msg,
                                        'witness': {'bucket': bucket, 'history': h2.hist}})
                continue
            merge(h2)
            for k, v in h2.notes.items():
                if k not in seen_keys:
                    seen_keys.add(k)
                    out['viol'].append(v)
            h2.notes = {}
            if h2.max_len >= bucket or h2.deleted_before:
                out['sigs'].append(_sig(bucket, None, h2.hist))
            if d + 1 < depth:
                rec(h2, d + 1)

    h0 = Harness(bucket, 2)
    rec(h0, 0)
    out['cnt']['dfs_sequences'] = total[0]
    out['sample'] = {'kind': 'dfs', 'bucket': bucket, 'depth': depth, 'alphabet': alphabet, 'first_op': first,
                     'sequences_enumerated': total[0]}
    # keep at most a few witnesses per key
    return out


def _random(job):
    rng = random.Random(job['seed'])
    bucket, drop_at, length, width = job['bucket'], job['drop_at'], job['length'], job['width']
    h = Harness(bucket, width, drop_at)
    out = {'viol': [], 'cnt': {}, 'sigs': [], 'sample': None}
    profile = job['profile']
    try:
        for step in range(length):
            n = len(h.m)
            r = rng.random()
            if n and rng.random() < 0.08:
                # rows read from the array itself are appended again
                if rng.random() < 0.7:
                    h.op_append_self(rng.choice([0, -1, rng.randrange(-n, n)]))
                else:
                    a_ = rng.randrange(0, n)
                    h.op_append_multiple_self(a_, min(n, a_ + rng.randint(1, 3)))
            elif drop_at:
                if r < 0.8 or n == 0:
                    h.op_append()
                else:
                    h.op_append_multiple(rng.randint(1, 4))
            elif profile == 'queue':     # margin-table pattern: append, delete arbitrary, stay around bucket size
                if n == 0 or r < 0.5 + 0.03 * (bucket - n):
                    h.op_append()
                else:
                    h.op_delete(rng.randrange(n))
            else:
                if n == 0 and rng.random() < 0.4:
                    # an empty (fresh or flushed) array is filled by a bulk append (warm-up injection), often of a single row
                    h.op_append_multiple(rng.choice([1, 1, 2, bucket, bucket + 1]))
                    h.c('bulk_appends_into_empty')
                elif n == 0 or r < 0.35:
                    h.op_append()
                elif r < 0.55:
                    h.op_append_multiple(rng.randint(1, max(2, bucket + 2)))
                elif r < 0.72:
                    # (negative positions count from the end of the rows, as on a list)
                    h.op_delete(rng.choice([0, n - 1, rng.randrange(n), -1, rng.randrange(-n, 0)]))
                elif r < 0.80:
                    h.op_setitem(rng.randrange(-n, n))
                elif r < 0.82:
                    # equal-length assignment through a slice whose bounds reach beyond the rows (list: clamped to the length),
                    # and a bulk append of no rows at all
                    if rng.random() < 0.7:
                        s_ = rng.choice([rng.randrange(0, n), -n - rng.randint(1, 3), rng.randrange(-n, 0)])
                        h.op_setslice(s_, n + rng.randint(1, 50))
                        h.c('setslice_bounds_beyond_length')
                    elif rng.random() < 0.5:
                        h.op_append_multiple(0)
                        h.c('bulk_appends_of_no_rows')
                    else:
                        h.op_append_multiple(rng.randint(1, 3), blank=True)
                        h.c('bulk_appends_of_blank_rows')
                elif r < 0.92:
                    s = rng.randrange(-n, n)
                    e = rng.choice([None, rng.randint(s if s >= 0 else s, n if s >= 0 else 0)])
                    if e == 0 and s < 0:
                        e = None
                    h.op_setslice(s, e)
                elif r < 0.95:
                    # every combination of omitted / non-negative / negative bounds (equal-length assignment, non-empty target)
                    s_ = rng.choice([None, rng.randrange(-n, n), rng.randrange(-n, n)])
                    e_ = rng.choice([None, rng.randint(-n, n), rng.randint(-n, n)])
                    if len(h.m[s_:e_]) > 0:
                        h.c('setslice_form:' + ('N' if s_ is None else '-' if s_ < 0 else '+') + ('N' if e_ is None else '-' if e_ < 0 else '+'))
                        h.op_setslice(s_, e_)
                    else:
                        h.op_setslice(None, rng.randint(0, n))
                else:
                    h.op_flush()
            h.c('ops')
            h.readback(full=len(h.m) <= 8, rng=rng)
    except Viol as v:
        out['viol'].append({'key': v.key, 'msg': v.msg,
                            'witness': {'bucket': bucket, 'drop_at': drop_at, 'history': h.hist[-40:],
                                        'history_len': len(h.hist)}})
    out['viol'].extend(h.notes.values())
    out['cnt'] = h.cnt
    out['cnt']['random_histories'] = 1
    if h.max_len >= bucket or h.deleted_before:
        out['sigs'].append(_sig(bucket, drop_at, h.hist))
    if job.get('want_sample'):
        out['sample'] = {'kind': 'random', 'bucket': bucket, 'drop_at': drop_at, 'profile': profile,
                         'history_head': h.hist[:25], 'ops': len(h.hist), 'final_len': len(h.m)}
    return out


def run_job(job):
    return _dfs(job) if job['kind'] == 'dfs' else _random(job)


def make_jobs(tier, seed):
    jobs = []
    alpha_small = ['A', 'M2', 'X0', 'XL', 'F']
    alpha_big = ['A', 'M1', 'M2', 'M3', 'X0', 'XL', 'Xm', 'F', 'S-1', 'SS']
    if tier == 'quick':
        plans = [(2, 6, alpha_small), (3, 6, alpha_small), (2, 4, alpha_big), (3, 4, alpha_big),
                 (1, 5, ['A', 'M1', 'M2', 'X0', 'F']), (1, 4, alpha_big)]
        nrand = 600
    else:
        plans = [(2, 9, alpha_small), (3, 8, alpha_small), (2, 6, alpha_big), (3, 6, alpha_big),
                 (2, 11, ['A', 'X0', 'XL']), (3, 12, ['A', 'X0']), (1, 8, ['A', 'M1', 'M2', 'X0', 'F']), (1, 6, alpha_big)]
        nrand = 12000
    for bucket, depth, alpha in plans:
        for first in alpha:
            if first[0] in 'XS':
                continue
            jobs.append({'kind': 'dfs', 'bucket': bucket, 'depth': depth, 'alphabet': alpha, 'first': first})
    rng = random.Random(1000 + seed)
    for i in range(nrand):
        bucket = rng.choice([1, 2, 3, 5, 10, 10, 60])
        drop = None
        profile = rng.choice(['mixed', 'mixed', 'queue'])
        if rng.random() < 0.2:
            drop = rng.choice([4, 6, 10, 60, 120])
            bucket = rng.choice([b for b in (2, 3, 5, 30, 60) if b <= drop])
        jobs.append({'kind': 'random', 'seed': rng.randrange(1 << 30), 'bucket': bucket, 'drop_at': drop,
                     'length': rng.choice([20, 60, 120, 300]) if tier == 'thorough' else rng.choice([20, 60, 150]),
                     'width': rng.choice([2, 6]), 'profile': profile, 'want_sample': i < 4})
    return jobs
