"""C11 - research.backtest is a pure, repeatable function of its arguments.

Two-process differential monitor: a probe call is executed (a) in a fresh process and (b) after a history of other
calls in one process (other exchange names, spot instead of futures, other leverage / mode / fee / balance, other routes
and data routes, other warm-up size, other simulator, calls that abort with an exception raised from a strategy hook,
from an order rejection or from a failpoint injected at the k-th executed line of the simulator). Return value and the
complete tracer log of the probe must be equal; two consecutive identical calls in one process must be equal. Every
argument object of every call in a process (config dict, routes and data_routes lists, candle dicts and arrays, warm-up
candles, hyperparameters) is kept alive and compared with a pre-call deep copy after each later call; in part of the
histories the probe's own argument objects are passed to an earlier call too, and the fresh process calls the probe three
times with the same objects with one other call in between. The harness does NOT clear any jesse state between calls.
"""
import copy
import hashlib
import json
import random
import sys

import numpy as np

from .. import env, gen, session, specgen
from ..tracer import TR

PROP = 'C11'
ISOLATE = True
RULE = ('probe sessions (futures/spot, 1-2 routes, data routes, warm-up, both simulators; the probe strategy also reads a warm-up '
        'dependent indicator and the shared-vars store) x histories of 1-4 earlier calls varying one or several of: exchange name, '
        'exchange type under the same name, leverage, leverage mode, fee, balance, symbols/timeframes/data routes, warm-up size, '
        'simulator; fault sequences: hook exception at a chosen candle, order rejection, line failpoint inside the simulator. Every '
        'history and its fresh-process reference run in separate processes with the same hash seed. distinct = distinct (probe class, '
        'history signature); non-trivial = the fresh probe run has >= 1 trade.')
ASSUMPTIONS = ['equality of results is NaN-aware deep equality; traces are compared event by event (order ids renamed to ordinals)',
               'a defect present in every process is invisible here (it belongs to the other properties)']
MIN_OBS = {'probes_without_trades': 1, 'quiet_probe_after_calls_with_report_options': 2, 'histories_compared': 40, 'histories_with_aborted_session': 10, 'probes_with_trades': 6, 'argument_checks': 400, 'probe_argument_objects_reused': 15, 'third_call_checks': 8,
           'repeat_call_checks': 10, 'dimension:exchange_name': 4, 'dimension:type_same_name': 4, 'dimension:leverage': 4,
           'dimension:fee': 3, 'dimension:warmup': 4, 'dimension:routes': 4, 'dimension:simulator': 4, 'dimension:options': 3}
SHARD_TIMEOUT = 600
JOB_TIMEOUT = 300
OTHER_NAMES = ['Bybit USDT Perpetual', 'Binance Spot', 'Binance Perpetual Futures']


def job_env(job):
    # every interpreter has its own string-hash salt unless told otherwise: the reference runs and the runs after a history
    # get different ones (a result that depends on the iteration order of a set of strings differs between processes)
    if job.get('kind') == 'history':
        return {'PYTHONHASHSEED': str(1 + job.get('_salt', 0) % 7)}
    return {'PYTHONHASHSEED': '0'}


def _probe_spec(rng, klass, quiet=False, busy2=False):
    spot = klass == 'spot'
    cfg = {'starting_balance': 10000, 'fee': 0.001, 'type': 'spot' if spot else 'futures'}
    if not spot:
        cfg.update(futures_leverage=rng.choice([2, 5]), futures_leverage_mode=rng.choice(['cross', 'isolated']))
    spec = specgen.random_session(rng, minutes=rng.choice([300, 420]), exch_type=cfg['type'], nsym=rng.choice([1, 1, 2]),
                                  tfs=['1m', '5m', '15m'], data_tfs=['15m', '1h'], warmup=rng.choice([240, 240, 0]),
                                  fast=rng.random() < 0.4)
    if busy2:
        # two pairs on one wallet in the fast simulator, both trading all the time with tight exits on 15m candles: fills of
        # both pairs fall into the same chunk, and each pair's callbacks see the wallet the other one has just changed
        spec = specgen.random_session(rng, minutes=420, exch_type=cfg['type'], nsym=2, tfs=['15m'], data_tfs=['1h'],
                                      warmup=240, fast=True)
        spec['fast'] = True
    spec['config'] = cfg
    for r in spec['routes']:
        sc = r['script']
        if busy2:
            sc.update(sl=0.003, tp=0.003, entry='market')
        sc.update(p_enter=0.3 if not busy2 else 0.7, observe='digest', use_shared=True, use_indicator=230, sl=sc['sl'] or 0.01, tp=sc['tp'] or 0.01)
        if rng.random() < 0.5:
            sc['log_error'] = rng.choice([7, 19])     # the probe's strategy reports through self.log(..., log_type='error')
        # the probe also asks for candles of pairs / timeframes it does not route (earlier calls of a history do route them)
        sc['read_foreign'] = [['ETH-USDT', '1m'], ['SOL-USDT', '1m'], ['ETH-USDT', '3m'], ['SOL-USDT', '30m'], ['SOL-USDT', '3m'],
                              ['ETH-USDT', '30m'], ['BTC-USDT', '2h'], ['ETH-USDT', '2h'], ['SOL-USDT', '2h']]
    if quiet:
        # a session that never trades (its result is the `no trades` report); so do the earlier calls derived from it
        for r in spec['routes']:
            r['script']['p_enter'] = 0.0
    spec['no_isolate'] = True
    spec['exchange'] = rng.choice(['Sandbox', 'Sandbox', OTHER_NAMES[0] if not spot else OTHER_NAMES[1]])
    if rng.random() < 0.35:
        spec['options'] = {'generate_equity_curve': True, 'generate_hyperparameters': True}
    if rng.random() < 0.45:
        # explicit hyperparameters that cover only PART of what the strategies declare (the rest are declared defaults)
        for r in spec['routes']:
            r['script']['hyperparameters'] = [{'name': 'qm', 'type': 'int', 'min': 1, 'max': 9, 'default': 3},
                                              {'name': 'hold', 'type': 'int', 'min': 1, 'max': 50, 'default': rng.choice([5, 9])},
                                              {'name': 'k', 'type': 'float', 'min': 0.0, 'max': 1.0, 'default': 0.25}]
            r['script']['log_hp'] = True
        spec['hyperparameters'] = rng.choice([{'qm': 2}, {'qm': 4, 'k': 0.5}, {}])
    return spec


DIMS = ['exchange_name', 'type_same_name', 'leverage', 'fee', 'warmup', 'routes', 'simulator', 'abort_hook',
        'abort_reject', 'abort_failpoint', 'balance', 'mode', 'options']


def _history(rng, probe, n, first_dim=None):
    """earlier calls: mutations of the probe along chosen dimensions (the first one can be prescribed: stratified coverage)"""
    hist, dims = [], set()
    for i in range(n):
        h = copy.deepcopy(probe)
        k = first_dim if (i == 0 and first_dim) else rng.choice(['exchange_name', 'type_same_name', 'leverage', 'fee', 'warmup', 'routes', 'simulator', 'abort_hook',
                        'abort_reject', 'abort_failpoint', 'balance', 'mode', 'options'])
        dims.add(k)
        cfg = h['config']
        if k == 'exchange_name':
            h['exchange'] = rng.choice([x for x in OTHER_NAMES + ['Sandbox'] if x != probe.get('exchange')])
        elif k == 'type_same_name':
            if cfg['type'] == 'futures':
                h['config'] = {'starting_balance': cfg['starting_balance'], 'fee': cfg['fee'], 'type': 'spot'}
                for r in h['routes']:
                    r['script']['sides'] = 'long'
                    r['script']['exits_in'] = 'open'
            else:
                h['config'] = dict(cfg, type='futures', futures_leverage=3, futures_leverage_mode='cross')
        elif k == 'leverage' and cfg['type'] == 'futures':
            cfg['futures_leverage'] = rng.choice([x for x in (1, 3, 10, 50) if x != cfg['futures_leverage']])
        elif k == 'mode' and cfg['type'] == 'futures':
            cfg['futures_leverage_mode'] = 'isolated' if cfg['futures_leverage_mode'] == 'cross' else 'cross'
            dims.add('leverage')
        elif k == 'fee':
            cfg['fee'] = rng.choice([0, 0.0004, 0.01])
        elif k == 'balance':
            cfg['starting_balance'] = rng.choice([500, 123456])
        elif k == 'warmup':
            if probe['warmup'] == 0:
                # the probe runs without warm-up candles (warm_up_candles: 0); the earlier call uses a non-zero size
                h['warmup'] = rng.choice([60, 120, 240])
                for s in h['candles']:
                    h['candles'][s]['n'] = h['candles'][s]['n'] + h['warmup']
            else:
                h['warmup'] = 120
                for s in h['candles']:
                    h['candles'][s]['n'] = h['candles'][s]['n'] - 120
        elif k == 'routes':
            h['routes'] = h['routes'][:1]
            h['routes'][0]['timeframe'] = rng.choice(['3m', '30m'])
            h['routes'][0]['symbol'] = rng.choice(['ETH-USDT', 'SOL-USDT'])
            h['candles'] = {h['routes'][0]['symbol']: next(iter(h['candles'].values()))}
            h['data_routes'] = [{'symbol': h['routes'][0]['symbol'], 'timeframe': '2h'}] if rng.random() < 0.5 else []
            h['warmup'] = 240
        elif k == 'simulator':
            h['fast'] = not h['fast']
        elif k == 'abort_hook':
            hook = rng.choice(['before', 'after', 'go_long', 'on_open_position', 'update_position', 'on_close_position',
                               'on_reduced_position'])
            for r in h['routes']:
                r['script']['raise_at'] = {'hook': hook, 'index': rng.randint(0, 40)}
                r['script']['sides'] = 'long' if hook == 'go_long' else r['script'].get('sides', 'long')
        elif k == 'abort_reject':
            for r in h['routes']:
                r['script']['size_frac'] = 5.0
                r['script']['entry'] = 'market'
        elif k == 'abort_failpoint':
            h['failpoint'] = {'after_lines': rng.randint(200, 60000)}
        elif k == 'options':
            # optional outputs of an earlier call (generate_logs switches the debug mode on; log files go to the scratch cwd)
            h['options'] = {o: True for o in rng.sample(['generate_logs', 'generate_equity_curve', 'generate_hyperparameters',
                                                         'generate_json', 'generate_csv', 'generate_tradingview'], rng.randint(1, 3))}
        if probe['warmup'] == 0 and h['warmup'] == 0 and k != 'warmup' and rng.random() < 0.5:
            # a probe without warm-up candles: half of the earlier calls run with a warm-up of their own
            h['warmup'] = rng.choice([60, 120])
            for s in h['candles']:
                h['candles'][s]['n'] = h['candles'][s]['n'] + h['warmup']
            dims.add('warmup')
        for s in h['candles'].values():
            s['seed'] = rng.randrange(1 << 30)
        for r in h['routes']:
            r['script']['seed'] = rng.randrange(1 << 30)
        h['no_isolate'] = True
        h['dims'] = [k] + (['warmup'] if h['warmup'] != probe['warmup'] and k != 'warmup' else [])
        hist.append(h)
    return hist, sorted(dims)


OBSERVABLE = ('hook', 'submit', 'reject', 'exec_call', 'exec_ret', 'exec_raise', 'cancel_call', 'cancel_ret', 'trade_closed', 'daily')


def _ser_events(events, observable_only=False):
    out = []
    started = False
    for e in events:
        if observable_only and e['k'] not in OBSERVABLE:
            # (the order in which the store is filled timeframe by timeframe follows the iteration order of a set of strings;
            # runs in processes with different hash salts are compared on what a caller or a strategy can observe)
            if e['k'] == 'daily':
                started = True
            continue
        if e['k'] == 'daily':
            started = True
        e = {k: v for k, v in e.items() if k not in ('msg',)}
        if not started:
            e['t'] = None      # warm-up injection runs before the simulated clock is set (wall clock)
        out.append(json.dumps(e, sort_keys=True, default=repr)[:400])
    return out


def _result_digest(res):
    return json.dumps(res, sort_keys=True, default=repr)


class _Failpoint:
    """raises at the k-th executed line of the simulator / research.backtest modules (source-free failpoint)"""

    def __init__(self, k):
        self.k, self.n = k, 0

    def __enter__(self):
        mon = sys.monitoring
        self.tool = mon.DEBUGGER_ID
        try:
            mon.use_tool_id(self.tool, 'verif-failpoint')
        except ValueError:
            pass
        import jesse.modes.backtest_mode as bm
        import importlib
        rb = importlib.import_module('jesse.research.backtest')
        self.files = {bm.__file__, rb.__file__}

        def line(code, lineno):
            if code.co_filename not in self.files:
                return mon.DISABLE
            self.n += 1
            if self.n == self.k:
                raise RuntimeError(f'injected failpoint at {code.co_filename.split("/")[-1]}:{lineno}')
        mon.register_callback(self.tool, mon.events.LINE, line)
        mon.set_events(self.tool, mon.events.LINE)
        return self

    def __exit__(self, *a):
        mon = sys.monitoring
        mon.set_events(self.tool, 0)
        mon.register_callback(self.tool, mon.events.LINE, None)
        try:
            mon.free_tool_id(self.tool)
        except Exception:
            pass
        return False


def _snap(x):
    """deep copy of an argument structure (strategy classes and other non-data leaves are kept by identity)"""
    if isinstance(x, np.ndarray):
        return x.copy()
    if isinstance(x, dict):
        return {k: _snap(v) for k, v in x.items()}
    if isinstance(x, (list, tuple)):
        return type(x)(_snap(v) for v in x)
    return x


def _diff(a, b, path=''):
    """first path at which the live argument `a` differs from its pre-call snapshot `b` (None when equal)"""
    if isinstance(b, np.ndarray):
        if not isinstance(a, np.ndarray) or a.shape != b.shape or a.dtype != b.dtype or not np.array_equal(a, b, equal_nan=True):
            return path or '.'
        return None
    if isinstance(b, dict):
        if not isinstance(a, dict) or list(a.keys()) != list(b.keys()):
            return f'{path} keys {list(a.keys()) if isinstance(a, dict) else type(a).__name__} != {list(b.keys())}'
        for k in b:
            d = _diff(a[k], b[k], f'{path}[{k!r}]')
            if d:
                return d
        return None
    if isinstance(b, (list, tuple)):
        if type(a) is not type(b) or len(a) != len(b):
            return f'{path} length {len(a) if hasattr(a, "__len__") else type(a).__name__} != {len(b)}'
        for i, (x, y) in enumerate(zip(a, b)):
            d = _diff(x, y, f'{path}[{i}]')
            if d:
                return d
        return None
    if a is b:
        return None
    if type(a) is not type(b) or a != b:
        return f'{path}: {a!r} != {b!r}'
    return None


class _Held:
    """every argument object handed to research.backtest in this process stays alive and is compared with its pre-call
    snapshot after each later call: a modification that only happens one or two calls later is still observed"""

    def __init__(self):
        self.items = []     # (label, args, snapshot)
        self.checks = 0
        self.found = {}

    def add(self, label, args):
        self.items.append((label, args, _snap(args)))

    def check(self, after):
        for label, args, snap in self.items:
            for name in snap:
                self.checks += 1
                d = _diff(args[name], snap[name], name)
                if d and name not in self.found:
                    self.found[name] = f'argument `{name}` of call {label} differs after call {after}: {d}'


def _run(spec, held=None, label='', prepared=None):
    if prepared is None:
        allc = session.build_candles(spec)
        prepared = (allc, session.build_args(spec, allc))
        if held is not None:
            held.add(label, prepared[1])
    allc, args = prepared
    fp = spec.get('failpoint')
    if fp:
        with _Failpoint(fp['after_lines']):
            out = session.run_session(spec, candles=allc, args=args)
    else:
        out = session.run_session(spec, candles=allc, args=args)
    if held is not None:
        held.check(label)
    return out, prepared


def run_job(job):
    import os
    import tempfile
    # optional outputs (logs, json, csv) are written relative to the working directory: use a scratch one outside the trees
    scratch = tempfile.mkdtemp(prefix='vf-c11-')
    os.chdir(scratch)
    try:
        return _run_job(job)
    finally:
        os.chdir(env.CACHE + '/cwd' if os.path.isdir(env.CACHE + '/cwd') else env.VERIF)
        import shutil
        shutil.rmtree(scratch, ignore_errors=True)


def _run_job(job):
    probe = job['probe']
    cnt, viol = {}, []
    info = {'kind': job['kind'], 'pid': job['pid']}
    held = _Held()
    prepared = None
    if job['kind'] == 'history':
        aborted = 0
        reuse_at = job.get('reuse_at')
        for i, h in enumerate(job['history']):
            if reuse_at == i:
                # the very argument objects of the probe are used for an earlier call as well (a research loop that keeps its
                # routes / data_routes / candles objects and calls backtest repeatedly)
                _, prepared = _run(probe, held, 'probe#early')
                cnt['probe_argument_objects_reused'] = 1
            out, _ = _run(h, held, f'history#{i}')
            if out['error']:
                aborted += 1
        info['aborted_earlier'] = aborted
    out, prepared = _run(probe, held, 'probe', prepared)
    info['events'] = _ser_events(out['events'])
    info['events_obs'] = _ser_events(out['events'], observable_only=True)
    info['result'] = _result_digest(out['result'])
    info['error'] = out['error'] and out['error']['type'] + ':' + out['error']['msg'][:120]
    info['trades'] = (out['result'] or {}).get('metrics', {}).get('total', 0) if out['result'] else 0
    info['submits'] = sum(1 for e in out['events'] if e['k'] == 'submit')
    if job['kind'] == 'fresh' and job.get('repeat'):
        # same argument objects again; then a different call; then the objects are looked at once more
        out2, _ = _run(probe, held, 'probe#repeat', prepared)
        cnt['repeat_call_checks'] = 1
        if _result_digest(out2['result']) != info['result'] or _ser_events(out2['events']) != info['events']:
            a, b = info['events'], _ser_events(out2['events'])
            i = next((i for i in range(min(len(a), len(b))) if a[i] != b[i]), min(len(a), len(b)))
            viol.append({'key': 'consecutive_identical_calls_differ',
                         'msg': f'second identical call (same argument objects) differs at trace event {i}: '
                                f'{a[i][:300] if i < len(a) else None} vs {b[i][:300] if i < len(b) else None}',
                         'witness': {'probe': probe}})
        if job.get('then'):
            _run(job['then'], held, 'other-after-probe')
            out3, _ = _run(probe, held, 'probe#third', prepared)
            cnt['third_call_checks'] = 1
            if _result_digest(out3['result']) != info['result'] or _ser_events(out3['events']) != info['events']:
                viol.append({'key': 'call_with_reused_argument_objects_differs',
                             'msg': 'the probe called a third time with the same argument objects, after one other call, differs '
                                    'from its first run', 'witness': {'probe': probe, 'between': job['then'].get('dims')}})
    cnt['argument_checks'] = held.checks
    cnt['calls_with_held_arguments'] = len(held.items)
    for name, msg in held.found.items():
        viol.append({'key': f'arguments_modified:{name}', 'msg': msg, 'witness': {'probe_class': job['klass'], 'kind': job['kind']}})
    return {'viol': viol, 'cnt': cnt, 'sigs': [], 'info': info}


def finalize(jobs, results, tier):
    viol, cnt, sigs, samples = [], {}, [], []
    fresh = {}
    for job, res in zip(jobs, results):
        if res and not res.get('error') and job['kind'] == 'fresh':
            fresh[job['pid']] = res['info']
            if res['info']['trades']:
                cnt['probes_with_trades'] = cnt.get('probes_with_trades', 0) + 1
            else:
                cnt['probes_without_trades'] = cnt.get('probes_without_trades', 0) + 1
    for job, res in zip(jobs, results):
        if not res or res.get('error') or job['kind'] != 'history' or job['pid'] not in fresh:
            continue
        f, h = fresh[job['pid']], res['info']
        cnt['histories_compared'] = cnt.get('histories_compared', 0) + 1
        for d in job['dims']:
            cnt[f'dimension:{d}'] = cnt.get(f'dimension:{d}', 0) + 1
        if h.get('aborted_earlier'):
            cnt['histories_with_aborted_session'] = cnt.get('histories_with_aborted_session', 0) + 1
        sigs.append(repr((job['klass'], tuple(job['dims']), f['trades'] > 0)))
        if f['trades'] == 0 and 'options' in job['dims']:
            cnt['quiet_probe_after_calls_with_report_options'] = cnt.get('quiet_probe_after_calls_with_report_options', 0) + 1
        if f['result'] == h['result'] and f['events_obs'] == h['events_obs'] and f['error'] == h['error']:
            continue
        a, b = f['events_obs'], h['events_obs']
        i = next((i for i in range(min(len(a), len(b))) if a[i] != b[i]), min(len(a), len(b)))
        ea = json.loads(a[i]) if i < len(a) and a[i].endswith('}') else (a[i] if i < len(a) else None)
        eb = json.loads(b[i]) if i < len(b) and b[i].endswith('}') else (b[i] if i < len(b) else None)
        key = _classify(job, f, h, ea, eb)
        viol.append({'key': key,
                     'msg': f'probe after history {job["dims"]} differs from the fresh-process run: fresh {f["submits"]} submits / '
                            f'{f["trades"]} trades / error {f["error"]}; after history {h["submits"]} submits / {h["trades"]} trades / '
                            f'error {h["error"]}; first differing trace event #{i}: fresh={str(ea)[:260]} history={str(eb)[:260]}',
                     'witness': {'dims': job['dims'], 'probe_exchange': job['probe'].get('exchange'),
                                 'history_exchanges': [x.get('exchange') for x in job['history']],
                                 'history_configs': [x['config'] for x in job['history']], 'probe_config': job['probe']['config'],
                                 'event_index': i, 'fresh_event': ea, 'history_event': eb},
                     'job': job})
        if len(samples) < 3:
            samples.append({'dims': job['dims'], 'first_difference': i})
    return {'viol': viol, 'cnt': cnt, 'sigs': sigs, 'samples': samples}


def _classify(job, f, h, ea, eb):
    probe = job['probe']
    names = [x.get('exchange', 'Sandbox') for x in job['history']]
    pname = probe.get('exchange', 'Sandbox')
    if h['submits'] == 0 and f['submits'] > 0 and pname not in names[:1] and pname != names[0]:
        return 'stale_driver_other_exchange'
    if isinstance(ea, dict) and isinstance(eb, dict) and ea.get('k') == 'hook' and eb.get('k') == 'hook':
        diff = [k for k in set(ea) | set(eb) if ea.get(k) != eb.get(k)]
        if diff == ['shared_counter']:
            return 'shared_vars_survive_sessions'
        if diff == ['ind']:
            return 'stale_config_memo:warmup_candles_num'
        if set(diff) <= {'am', 'bal', 'pos', 'price', 'candles'} and any(
                x['config'] != probe['config'] and x.get('exchange', 'Sandbox') == pname for x in job['history']):
            return 'stale_config_memo:exchange'
    if any(x['config'] != probe['config'] and x.get('exchange', 'Sandbox') == pname for x in job['history']):
        return 'stale_config_memo:exchange'
    if f['events_obs'] == h['events_obs'] and f['error'] == h['error']:
        return 'probe_result_differs_after_history'
    return 'probe_differs_after_history'


def make_jobs(tier, seed):
    rng = random.Random(110000 + seed)
    jobs = []
    nprobes = 12 if tier == 'quick' else 120
    for p in range(nprobes):
        klass = 'spot' if p % 3 == 2 else 'futures'
        quiet = p % 6 == 4
        busy2 = p % 6 == 1
        probe = _probe_spec(rng, klass, quiet, busy2)
        if quiet:
            probe.pop('options', None)
        then, _ = _history(rng, probe, 1)
        jobs.append({'kind': 'fresh', 'pid': p, 'klass': klass, 'probe': probe, 'repeat': True, 'then': then[0]})
        for hcount in range(5 if tier == 'quick' else 8):
            first_dim = DIMS[len(jobs) % len(DIMS)]
            if quiet and hcount in (0, 3):
                first_dim = 'options'
            hist, dims = _history(rng, probe, rng.choice([1, 1, 2, 3, 4]), first_dim)
            jobs.append({'kind': 'history', 'pid': p, 'klass': klass, 'probe': probe, 'history': hist, 'dims': dims, '_salt': len(jobs),
                         'reuse_at': rng.choice([None, 0, 0, len(hist) - 1])})
    return jobs
