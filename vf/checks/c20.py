"""C20 - candle series handed to the store are gapless and strictly ordered.

(1) _fill_absent_candles: every missing-minute pattern for intervals <= 10 minutes (exhaustive) + random patterns up to
    1500 minutes, checked against the statement directly.
(2) the candle store: random sequences of add_candle (new / repeated / older) and add_multiple_1m_candles on a real store,
    shadowed by a {timestamp: row} model.
(3) research.backtest: spacing of the leading candles.
(4) sessions with trading and data routes of mixed timeframes: the series the store holds for every timeframe, observed at
    every strategy bar and at the end (strictly increasing, gapless from the first input candle, complete, equal to the
    aggregation of the harness's own one-minute candles; the last row may be the candle still forming).
"""
import itertools
import random

import numpy as np

from .. import direct, gen

PROP = 'C20'
RULE = ('(1) all non-empty subsets of present minutes for interval lengths 1..10 plus random patterns (start/middle/end/all-but-one '
        'missing) up to 1500 minutes; (2) add sequences of length <= 60 over 1m and a higher timeframe with new, repeated, older-known '
        'and older-unknown timestamps and bulk adds (new, overlapping the tail, exact repeats); (3) leading spacing in {59999, 60000, '
        '60001, 120000, 0}; (4) sessions with 1-2 trading routes and 1-3 data routes over {1m,3m,5m,15m,30m,45m,1h} x 2 symbols, normal '
        'and fast simulator, warm-up 0 / 180 minutes, store series read at every `before` hook and at terminate. distinct = distinct (part, pattern / operation-kind sequence); non-trivial = >= 1 missing minute (1), '
        '>= 1 non-append operation (2).')
ASSUMPTIONS = ['an exception is acceptable for a candle / batch whose timestamps are older than the stored ones and unknown, as long '
               'as the store is left unchanged', 'bulk adds that overlap the stored tail are no longer than the stored series']
MIN_OBS = {'fill_cases_with_candles_outside_or_repeated': 300, 'fill_cases_batch_as_long_as_interval_but_incomplete': 100, 'fill_cases': 2000, 'fill_missing_minutes': 5000, 'store_ops': 3000, 'store_replacements': 300,
           'store_bulk_overlaps': 100, 'spacing_cases': 6, 'spacing_cases_with_warmup': 4, 'route_sessions': 30, 'fast_route_sessions': 10, 'route_sessions_with_forced_closes': 4,
           'series_observations': 3000, 'finer_data_route_observations': 200, 'stored_candles_compared': 5000}
EXHAUSTIVE_NOTE = 'part (1): every non-empty subset of present minutes for every interval length 1..10 (2036 patterns) in both tiers'


def _mk(ts, rng):
    o = round(rng.uniform(90, 110), 2)
    c = round(o * (1 + rng.gauss(0, 0.002)), 2)
    return {'id': f'id{ts}', 'symbol': 'BTC-USDT', 'exchange': 'Sandbox', 'timeframe': '1m', 'timestamp': ts, 'open': o,
            'close': c, 'high': max(o, c) + 0.5, 'low': min(o, c) - 0.5, 'volume': round(rng.uniform(1, 9), 3)}


def _check_fill(present_idx, L, rng, fill, viol, cnt, extra=None):
    start = gen.T0 + rng.randrange(0, 1000) * 60000
    end = start + (L - 1) * 60000
    batch = [_mk(start + i * 60000, rng) for i in sorted(present_idx)]
    extras = []
    if extra:
        # what an exchange page may also contain: candles just outside the requested interval (a page that starts late runs
        # past the end; one that starts early begins before it) and a minute delivered twice (overlapping pages). None of
        # them changes what the interval must look like; `n_extra` of them make the batch as long as the interval again
        n_extra = max(1, L - len(batch)) if extra.endswith('_fill') else 1
        kind = extra.split('_')[0]
        for j in range(n_extra):
            if kind == 'after':
                extras.append(_mk(end + (j + 1) * 60000, rng))
            elif kind == 'before':
                extras.append(_mk(start - (j + 1) * 60000, rng))
            else:
                extras.append(dict(batch[rng.randrange(len(batch))]))
        cnt['fill_cases_with_candles_outside_or_repeated'] = cnt.get('fill_cases_with_candles_outside_or_repeated', 0) + 1
        if len(batch) + len(extras) == L:
            cnt['fill_cases_batch_as_long_as_interval_but_incomplete'] = cnt.get('fill_cases_batch_as_long_as_interval_but_incomplete', 0) + (1 if len(batch) < L else 0)
    # the batch is not always handed over oldest-first (an exchange may answer newest-first; merged pages are unordered)
    order = rng.choice(['ascending', 'ascending', 'descending', 'shuffled'])
    if order == 'descending':
        batch.reverse()
    elif order == 'shuffled':
        rng.shuffle(batch)
    if order != 'ascending' and len(batch) > 1:
        cnt['fill_cases_unordered_batch'] = cnt.get('fill_cases_unordered_batch', 0) + 1
    # (extras never come first: the candle that opens the batch defines the price of a leading gap)
    for x in extras:
        batch.insert(rng.randint(1, len(batch)), x)
    snap = [dict(c) for c in batch]
    cnt['fill_cases'] = cnt.get('fill_cases', 0) + 1
    cnt['fill_missing_minutes'] = cnt.get('fill_missing_minutes', 0) + (L - len(batch))

    def bad(key, msg):
        viol.append({'key': key, 'msg': msg, 'witness': {'interval_minutes': L, 'present': sorted(present_idx)}})

    try:
        out = fill([dict(c) for c in batch] if False else batch, start, end)
    except Exception as ex:
        return bad(f'fill_raises:{type(ex).__name__}', repr(ex))
    if len(out) != L:
        return bad('fill_wrong_length', f'{len(out)} candles for {L} minutes')
    prev_close = None
    by_ts = {}
    for c in snap:
        by_ts.setdefault(c['timestamp'], c)
    for i, c in enumerate(out):
        ts = start + i * 60000
        if c['timestamp'] != ts:
            return bad('fill_timestamps_not_consecutive', f'position {i}: timestamp {c["timestamp"]} expected {ts}')
        if ts in by_ts:
            exp = by_ts[ts]
            if any(c.get(k) != exp[k] for k in ('open', 'close', 'high', 'low', 'volume', 'timestamp')):
                return bad('fill_changed_provided_candle', f'minute {i}: {c} vs provided {exp}')
        else:
            ref = prev_close if prev_close is not None else snap[0]['open']
            if not (c['open'] == c['close'] == c['high'] == c['low'] == ref and c['volume'] == 0):
                key = 'fill_gap_not_flat_at_previous_close' if prev_close is not None else 'fill_leading_gap_not_at_first_open'
                return bad(key, f'minute {i} filled with {c}, expected flat zero-volume candle at {ref}')
        prev_close = c['close']
    if batch != snap:
        bad('fill_mutated_input_batch', 'the provided batch was modified')


def _part1(job):
    from jesse.modes.import_candles_mode import _fill_absent_candles as fill
    rng = random.Random(job['seed'])
    viol, cnt, sigs = [], {}, []
    if job['mode'] == 'exhaustive':
        for L in range(1, 11):
            for k in range(1, L + 1):
                for sub in itertools.combinations(range(L), k):
                    _check_fill(sub, L, rng, fill, viol, cnt)
                    if k < L:
                        sigs.append(repr((L, sub)))
                    if k < L and (k == L - 1 or rng.random() < 0.15):
                        ex = rng.choice(['after_fill', 'before_fill', 'dup_fill', 'after', 'dup'])
                        _check_fill(sub, L, rng, fill, viol, cnt, extra=ex)
                        sigs.append(repr((L, sub, ex)))
    else:
        for _ in range(job['n']):
            L = rng.choice([11, 30, 60, 200, 600, 1500])
            kind = rng.choice(['random', 'start', 'end', 'middle', 'one'])
            if kind == 'random':
                p = rng.choice([0.1, 0.5, 0.9])
                sub = [i for i in range(L) if rng.random() < p] or [rng.randrange(L)]
            elif kind == 'start':
                sub = list(range(rng.randrange(1, L), L))
            elif kind == 'end':
                sub = list(range(0, rng.randrange(1, L)))
            elif kind == 'middle':
                a, b = sorted(rng.sample(range(L), 2))
                sub = [i for i in range(L) if not (a <= i <= b)] or [0]
            else:
                sub = [rng.randrange(L)]
            ex = rng.choice([None, None, 'after_fill', 'before_fill', 'dup_fill', 'after', 'before', 'dup']) if len(sub) < L else None
            _check_fill(sub, L, rng, fill, viol, cnt, extra=ex)
            sigs.append(repr((L, kind, len(sub), ex)))
    return {'viol': _dedup(viol), 'cnt': cnt, 'sigs': sigs,
            'sample': {'part': 1, 'mode': job['mode'], 'cases': cnt.get('fill_cases')}}


def _part2(job):
    rng = random.Random(job['seed'])
    viol, cnt, sigs = [], {}, []
    cfg = {'starting_balance': 1000, 'fee': 0, 'type': 'futures', 'futures_leverage': 1, 'futures_leverage_mode': 'cross'}
    for h in range(job['n']):
        w = direct.World(cfg, ['BTC-USDT'])
        store = w.store
        tf = rng.choice(['1m', '1m', '5m'])
        # World adds one 1m candle at T0; a 5m store starts empty
        if tf == '5m':
            from jesse.routes import router
            router.initiate([{'exchange': direct.EXCHANGE, 'symbol': 'BTC-USDT', 'timeframe': '5m',
                              'strategy': direct.make_stub_strategy()}], [])
            store.candles.init_storage(50)
        step = gen.TF_MIN[tf] * 60000
        model = {}
        try:
            cur = np.array(store.candles.get_candles(direct.EXCHANGE, 'BTC-USDT', tf), copy=True)
            for r in cur:
                model[int(r[0])] = r.copy()
        except Exception:
            pass
        ops = []
        uid = [0]

        def row(ts):
            uid[0] += 1
            p = 100 + uid[0] * 0.01
            return np.array([float(ts), p, p + 0.1, p + 0.2, p - 0.2, float(uid[0])])

        def bad(key, msg):
            viol.append({'key': key, 'msg': msg, 'witness': {'timeframe': tf, 'ops': ops[-15:]}})

        def read():
            return np.array(store.candles.get_storage(direct.EXCHANGE, 'BTC-USDT', tf)[:], copy=True)

        ok = True
        for step_i in range(job['length']):
            last = max(model) if model else gen.T0 - step
            r = rng.random()
            before = read()
            cnt['store_ops'] = cnt.get('store_ops', 0) + 1
            try:
                if rng.random() < (0.5 if not model else 0.07):
                    # a batch handed over in one call (warm-up injection); it may repeat a minute or contain an older candle:
                    # the outcome is that of adding its candles one by one
                    k = rng.randint(2, 6)
                    tss = [last + step * (i + 1) for i in range(k)]
                    if rng.random() < 0.6:
                        j = rng.randrange(1, k)
                        tss.insert(j, rng.choice(tss[:j]))          # a minute of the batch itself is sent again
                    if model and rng.random() < 0.3:
                        tss.insert(rng.randrange(0, len(tss)), rng.choice(sorted(model)))   # a stored older minute
                    batch = np.array([row(t_) for t_ in tss])
                    ops.append(('batch' if model else 'batch_into_empty_store', int(tss[0]), len(tss)))
                    cnt['store_batch_ops'] = cnt.get('store_batch_ops', 0) + 1
                    if not model:
                        cnt['store_batch_into_empty'] = cnt.get('store_batch_into_empty', 0) + 1
                    store.candles.batch_add_candle(batch, direct.EXCHANGE, 'BTC-USDT', tf, with_generation=False)
                    for b in batch:
                        t_ = int(b[0])
                        if t_ in model or not model or t_ > max(model):
                            model[t_] = b
                elif r < 0.4 or not model:
                    ts = last + step * rng.choice([1, 1, 1, 2, 5])
                    c = row(ts)
                    ops.append(('new', ts))
                    store.candles.add_candle(c, direct.EXCHANGE, 'BTC-USDT', tf, with_execution=False, with_generation=False)
                    model[int(ts)] = c
                elif r < 0.6:
                    ts = last
                    c = row(ts)
                    ops.append(('repeat_last', ts))
                    store.candles.add_candle(c, direct.EXCHANGE, 'BTC-USDT', tf, with_execution=False, with_generation=False)
                    model[int(ts)] = c
                    cnt['store_replacements'] = cnt.get('store_replacements', 0) + 1
                elif r < 0.72:
                    ts = rng.choice(sorted(model))
                    c = row(ts)
                    ops.append(('older_known', ts, len(model)))
                    store.candles.add_candle(c, direct.EXCHANGE, 'BTC-USDT', tf, with_execution=False, with_generation=False)
                    model[int(ts)] = c
                    cnt['store_replacements'] = cnt.get('store_replacements', 0) + 1
                elif r < 0.8:
                    ts = min(model) - step * rng.randint(1, 3)
                    if rng.random() < 0.5 and tf != '1m' and len(model) >= 2:
                        ts = sorted(model)[0] + step // 2          # between two stored candles, unknown
                    c = row(ts)
                    ops.append(('older_unknown', ts))
                    try:
                        store.candles.add_candle(c, direct.EXCHANGE, 'BTC-USDT', tf, with_execution=False, with_generation=False)
                    except Exception:
                        cnt['older_unknown_raised'] = cnt.get('older_unknown_raised', 0) + 1
                    after = read()
                    if not np.array_equal(before, after):
                        bad('older_unknown_timestamp_changed_store', f'adding {ts} (older, unknown) changed the store')
                        ok = False
                        break
                    continue
                elif tf == '1m':
                    k = rng.randint(1, min(6, len(model)))
                    kind = rng.choice(['new', 'overlap', 'repeat'])
                    if kind == 'new':
                        t0 = last + step
                    elif kind == 'overlap':
                        t0 = last - step * rng.randint(0, k - 1)
                    else:
                        t0 = last - step * (k - 1)
                    if t0 < min(model):
                        continue
                    batch = np.array([row(t0 + i * step) for i in range(k)])
                    contiguous_tail = all((last - i * step) in model for i in range(k))
                    if kind != 'new' and not contiguous_tail:
                        continue
                    ops.append(('bulk_' + kind, t0, k))
                    if kind != 'new':
                        cnt['store_bulk_overlaps'] = cnt.get('store_bulk_overlaps', 0) + 1
                    store.candles.add_multiple_1m_candles(batch, direct.EXCHANGE, 'BTC-USDT')
                    for b in batch:
                        model[int(b[0])] = b
                else:
                    continue
            except Exception as ex:
                bad(f'store_op_raises:{ops[-1][0]}:{type(ex).__name__}', f'{ops[-1]} raised {ex!r}')
                ok = False
                break
            got = read()
            exp = np.array([model[t] for t in sorted(model)])
            if len(got) and not np.all(np.diff(got[:, 0]) > 0):
                bad('store_timestamps_not_strictly_increasing', f'after {ops[-1]}: {got[:, 0].tolist()[-8:]}')
                ok = False
                break
            if got.shape != exp.shape or not np.array_equal(got, exp):
                bad(f'store_differs_from_model:{ops[-1][0]}', f'after {ops[-1]}: {len(got)} rows, model {len(exp)} rows; '
                                                              f'last stored {got[-1].tolist() if len(got) else None} model {exp[-1].tolist()}')
                ok = False
                break
        sigs.append(repr((tf, tuple(o[0] for o in ops))))
        w.close()
    return {'viol': _dedup(viol), 'cnt': cnt, 'sigs': sigs, 'sample': {'part': 2, 'ops_tail': ops[-10:]}}


def _part3(job):
    from jesse.research import backtest
    from ..scripted import make_strategy
    from .. import session
    viol, cnt = [], {}
    for gap in (59999, 60000, 60001, 120000, 0, 30000):
        c = gen.candles({'seed': 5, 'n': 30})
        c[1:, 0] = c[0, 0] + gap + np.arange(29) * 60000
        session.isolate()
        cfg = {'starting_balance': 1000, 'fee': 0, 'type': 'futures', 'futures_leverage': 1, 'futures_leverage_mode': 'cross',
               'exchange': 'Sandbox', 'warm_up_candles': 0}
        routes = [{'exchange': 'Sandbox', 'symbol': 'BTC-USDT', 'timeframe': '1m',
                   'strategy': make_strategy({'seed': 1, 'p_enter': 0, 'observe': 'none'})}]
        cnt['spacing_cases'] = cnt.get('spacing_cases', 0) + 1
        try:
            backtest(cfg, routes, [], {'Sandbox-BTC-USDT': {'exchange': 'Sandbox', 'symbol': 'BTC-USDT', 'candles': c}})
            accepted = True
        except ValueError:
            accepted = False
        except Exception as ex:
            accepted = f'other:{type(ex).__name__}'
        if gap == 60000 and accepted is not True:
            viol.append({'key': 'one_minute_candles_rejected', 'msg': f'spacing 60000 -> {accepted}', 'witness': {}})
        if gap != 60000 and accepted is True:
            viol.append({'key': 'wrong_spacing_accepted', 'msg': f'leading candles {gap} ms apart were accepted',
                         'witness': {'gap': gap}})
    # the same with well-formed warm-up candles passed along: the trading candles are validated all the same
    for gap in (60000, 300000, 120000, 0):
        tr = gen.candles({'seed': 8, 'n': 30})
        wu = gen.candles({'seed': 9, 'n': 30})
        wu[:, 0] = tr[0, 0] - (30 - np.arange(30)) * 60000
        tr[1:, 0] = tr[0, 0] + gap + np.arange(29) * 60000
        session.isolate()
        cfg = {'starting_balance': 1000, 'fee': 0, 'type': 'futures', 'futures_leverage': 1, 'futures_leverage_mode': 'cross',
               'exchange': 'Sandbox', 'warm_up_candles': 30}
        routes = [{'exchange': 'Sandbox', 'symbol': 'BTC-USDT', 'timeframe': '1m',
                   'strategy': make_strategy({'seed': 1, 'p_enter': 0, 'observe': 'none'})}]
        cnt['spacing_cases_with_warmup'] = cnt.get('spacing_cases_with_warmup', 0) + 1
        try:
            backtest(cfg, routes, [], {'Sandbox-BTC-USDT': {'exchange': 'Sandbox', 'symbol': 'BTC-USDT', 'candles': tr}},
                     {'Sandbox-BTC-USDT': {'exchange': 'Sandbox', 'symbol': 'BTC-USDT', 'candles': wu}})
            accepted = True
        except ValueError:
            accepted = False
        except Exception as ex:
            accepted = f'other:{type(ex).__name__}'
        if gap == 60000 and accepted is not True:
            viol.append({'key': 'one_minute_candles_rejected', 'msg': f'spacing 60000 with warm-up candles -> {accepted}', 'witness': {}})
        if gap != 60000 and accepted is True:
            viol.append({'key': 'wrong_spacing_accepted:with_warmup_candles',
                         'msg': f'leading trading candles {gap} ms apart were accepted when warm-up candles were passed',
                         'witness': {'gap': gap}})
    # several candle sets (second traded symbol / data-route symbol): every set is validated, wherever the bad one is listed
    for gap in (60000, 300000, 59999):
        for bad_pos in (0, 1, 2):
            good = gen.candles({'seed': 6, 'n': 30})
            bad = gen.candles({'seed': 7, 'n': 30})
            bad[1:, 0] = bad[0, 0] + gap + np.arange(29) * 60000
            syms = ['BTC-USDT', 'ETH-USDT', 'SOL-USDT']
            cands = {}
            for j, sy in enumerate(syms):
                cands[f'Sandbox-{sy}'] = {'exchange': 'Sandbox', 'symbol': sy, 'candles': (bad if j == bad_pos else good).copy()}
            session.isolate()
            cfg = {'starting_balance': 1000, 'fee': 0, 'type': 'futures', 'futures_leverage': 1, 'futures_leverage_mode': 'cross',
                   'exchange': 'Sandbox', 'warm_up_candles': 0}
            routes = [{'exchange': 'Sandbox', 'symbol': sy, 'timeframe': '1m',
                       'strategy': make_strategy({'seed': 1, 'p_enter': 0, 'observe': 'none'})} for sy in syms[:2]]
            data_routes = [{'exchange': 'Sandbox', 'symbol': syms[2], 'timeframe': '5m'}]
            cnt['multi_set_spacing_cases'] = cnt.get('multi_set_spacing_cases', 0) + 1
            try:
                backtest(cfg, routes, data_routes, cands)
                accepted = True
            except ValueError:
                accepted = False
            except Exception as ex:
                accepted = f'other:{type(ex).__name__}'
            if gap == 60000 and accepted is not True:
                viol.append({'key': 'one_minute_candles_rejected', 'msg': f'three well-formed sets -> {accepted}', 'witness': {}})
            if gap != 60000 and accepted is True:
                viol.append({'key': 'wrong_spacing_accepted:set_not_last' if bad_pos < 2 else 'wrong_spacing_accepted',
                             'msg': f'candle set #{bad_pos} of 3 has leading candles {gap} ms apart and was accepted',
                             'witness': {'gap': gap, 'position': bad_pos}})
    return {'viol': _dedup(viol), 'cnt': cnt, 'sigs': ['spacing', 'spacing_multi']}


def _part4(job):
    """Sessions with trading and data routes of mixed timeframes (normal and fast simulator): the series the store holds for
    every (symbol, timeframe) is observed from the strategy hooks and at the end, against the harness's own 1m input."""
    from .. import session
    from jesse.store import store
    rng = random.Random(job['seed'])
    viol, cnt, sigs = [], {}, []
    for _ in range(job['n']):
        tfs = ['1m', '3m', '5m', '15m', '30m', '45m', '1h']
        syms = ['BTC-USDT', 'ETH-USDT']
        pairs = [(s_, t_) for s_ in syms for t_ in tfs]
        rng.shuffle(pairs)
        n_tr = rng.choice([1, 1, 2])
        trading, used = [], set()
        for s_, t_ in pairs:
            if s_ not in used and len(trading) < n_tr:
                trading.append((s_, t_))
                used.add(s_)
        data = [p_ for p_ in pairs if p_ not in trading][:rng.choice([1, 2, 3])]
        w = rng.choice([0, 180])
        n = rng.choice([360, 540]) + w
        fast = rng.random() < 0.6
        spec = {'config': {'starting_balance': 10000, 'fee': 0.001, 'type': 'futures', 'futures_leverage': 2,
                           'futures_leverage_mode': 'cross'},
                'routes': [{'symbol': s_, 'timeframe': t_,
                            'script': {'seed': rng.randrange(1 << 30), 'p_enter': 0.3, 'observe': 'light', 'sl': 0.004, 'tp': 0.004,
                                       'entry': rng.choice(['market', 'limit', 'stop'])}} for s_, t_ in trading],
                'data_routes': [{'symbol': s_, 'timeframe': t_} for s_, t_ in data], 'warmup': w, 'fast': fast,
                'candles': {s_: gen.random_spec(rng, n, 'walk') for s_ in syms if any(s_ == x for x, _ in trading + data)}}
        if rng.random() < 0.3:
            # isolated margin at high leverage without stops: forced closes happen in the middle of sessions (their handling
            # touches the larger-timeframe series of the store as well)
            spec['config'] = {'starting_balance': 10000, 'fee': 0.0005, 'type': 'futures', 'futures_leverage': rng.choice([20, 50]),
                              'futures_leverage_mode': 'isolated'}
            for r_ in spec['routes']:
                r_['script'].update(sl=None, tp=0.02, entry='market', p_enter=0.6)
            cnt['route_sessions_isolated'] = cnt.get('route_sessions_isolated', 0) + 1
        allc = session.build_candles(spec)
        t0 = {s_: int(a[0, 0]) for s_, a in allc.items()}
        considered = sorted({t_ for _, t_ in trading + data} | {'1m'})
        seen_keys = set()
        state = {'obs': 0, 'fills': 0}

        def bad(key, msg, **wit):
            if key not in seen_keys:
                seen_keys.add(key)
                wit.update(trading=trading, data=data, fast=fast, warmup=w, n=n)
                viol.append({'key': key, 'msg': msg + f' (trading {trading}, data routes {data}, fast={fast}, warm-up {w})',
                             'witness': wit})

        def look(now, full):
            for s_ in allc:
                src = allc[s_]
                for t_ in considered:
                    m = gen.TF_MIN[t_]
                    try:
                        a = np.array(store.candles.get_candles(session.EXCHANGE, s_, t_), dtype=float)
                    except Exception as ex:
                        bad(f'store_series_unreadable:{type(ex).__name__}', f'{s_} {t_}: {ex!r}')
                        continue
                    cnt['series_observations'] = cnt.get('series_observations', 0) + 1
                    if t_ != '1m' and (s_, t_) in data and m < min(gen.TF_MIN[x] for _, x in trading):
                        cnt['finer_data_route_observations'] = cnt.get('finer_data_route_observations', 0) + 1
                    # (the view includes the candle that is still forming: the minutes of it seen so far)
                    mins = int((now - t0[s_]) // 60000)
                    exp_n = -(-mins // m)
                    if a.ndim != 2 or len(a) == 0:
                        if exp_n > 0:
                            bad('store_series_empty', f'{s_} {t_}: no candles although {exp_n} have started')
                        continue
                    ts = a[:, 0]
                    d = np.diff(ts)
                    if np.any(d <= 0):
                        i = int(np.flatnonzero(d <= 0)[0])
                        bad('store_timestamps_not_increasing', f'{s_} {t_}: timestamps {ts[i]:.0f}, {ts[i + 1]:.0f} at rows {i}, {i + 1}')
                        continue
                    if np.any(d != m * 60000):
                        i = int(np.flatnonzero(d != m * 60000)[0])
                        bad('store_series_has_gap', f'{s_} {t_}: rows {i}, {i + 1} are {d[i] / 60000:g} minutes apart', row=i)
                        continue
                    if ts[0] != t0[s_]:
                        bad('store_series_does_not_start_at_first_candle', f'{s_} {t_}: first stored candle starts '
                                                                           f'{(ts[0] - t0[s_]) / 60000:g} minutes after the first input candle')
                        continue
                    if len(a) != exp_n:
                        bad('store_series_length_differs_from_started_candles',
                            f'{s_} {t_}: {len(a)} stored candles {mins} minutes into the data, {exp_n} have started')
                        continue
                    rows = range(len(a)) if full else range(max(0, len(a) - 2), len(a))
                    for i in rows:
                        blk = src[i * m:min((i + 1) * m, mins)]
                        exp = [blk[0, 1], blk[-1, 2], blk[:, 3].max(), blk[:, 4].min(), blk[:, 5].sum()]
                        got = a[i, 1:6]
                        if not (np.array_equal(got[:4], exp[:4]) and abs(got[4] - exp[4]) <= 1e-9 * max(1.0, abs(exp[4]))):
                            bad('store_candle_differs_from_its_minutes', f'{s_} {t_} row {i}: stored {got.tolist()}, its {m} one-minute '
                                                                         f'candles give {exp}', row=i)
                            break
                        cnt['stored_candles_compared'] = cnt.get('stored_candles_compared', 0) + 1

        def sub(e):
            if e['k'] == 'hook' and e.get('hook') in ('before', 'terminate'):
                state['obs'] += 1
                look(int(e['t']), e['hook'] == 'terminate')
            elif e['k'] == 'exec_ret':
                state['fills'] += 1
            elif e['k'] == 'liq_exit' and e.get('liq_total'):
                state['liq'] = 1

        out = session.run_session(spec, subs=[sub], keep_events=False, snapshots=False, candles=allc)
        cnt['route_sessions'] = cnt.get('route_sessions', 0) + 1
        if fast:
            cnt['fast_route_sessions'] = cnt.get('fast_route_sessions', 0) + 1
        cnt['fills_in_route_sessions'] = cnt.get('fills_in_route_sessions', 0) + state['fills']
        cnt['route_sessions_with_forced_closes'] = cnt.get('route_sessions_with_forced_closes', 0) + state.get('liq', 0)
        if out['error'] and out['error']['type'] in ('InsufficientMargin', 'InsufficientBalance'):
            cnt['route_sessions_ended_out_of_money'] = cnt.get('route_sessions_ended_out_of_money', 0) + 1     # (a strategy's business)
        elif out['error']:
            bad('route_session_raised:' + out['error']['type'], out['error']['msg'], tb=out['error']['tb'])
        sigs.append(repr(('routes', tuple(sorted(t_ for _, t_ in trading)), tuple(sorted(t_ for _, t_ in data)), fast, w)))
    return {'viol': _dedup(viol), 'cnt': cnt, 'sigs': sigs}


def _dedup(viol):
    seen, out = set(), []
    for x in viol:
        if x['key'] not in seen:
            seen.add(x['key'])
            out.append(x)
    return out


def run_job(job):
    return {1: _part1, 2: _part2, 3: _part3, 4: _part4}[job['part']](job)


def make_jobs(tier, seed):
    rng = random.Random(200000 + seed)
    jobs = [{'part': 1, 'mode': 'exhaustive', 'seed': rng.randrange(1 << 30)}]
    for i in range(8 if tier == 'quick' else 3000):
        jobs.append({'part': 1, 'mode': 'random', 'seed': rng.randrange(1 << 30), 'n': 12})
    for i in range(24 if tier == 'quick' else 12000):
        jobs.append({'part': 2, 'seed': rng.randrange(1 << 30), 'n': 10, 'length': rng.choice([20, 40, 60])})
    jobs.append({'part': 3})
    for i in range(16 if tier == 'quick' else 4000):
        jobs.append({'part': 4, 'seed': rng.randrange(1 << 30), 'n': 3})
    return jobs
