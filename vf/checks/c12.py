"""C12 - the fast simulator reproduces the normal simulation when fills are unambiguous.

Two-run differential monitor: the same single-symbol session is executed by the normal and by the fast simulator under
the tracer; the precondition (<= 1 resting fill per aligned trading-candle window, no liquidation) is evaluated on the
normal run's trace; if it holds, executed orders, closed trades and final balances must agree.
"""
import random

from .. import gen, session, specgen

PROP = 'C12'
RULE = ('single-symbol scripted sessions (trading timeframe 1m..1h, optional larger/smaller data routes, spot/futures, exits '
        'spaced wider than a trading candle) run twice - normal and fast simulator; judged only if the normal trace satisfies the '
        'precondition. distinct = distinct (trading timeframe, data timeframes, exchange type, fill-type sequence); '
        'non-trivial = precondition holds and >= 3 fills.')
ASSUMPTIONS = ['precondition evaluated on aligned trading-timeframe windows (a superset of every fast-mode chunk)',
               'numeric comparison rel 1e-9']
MIN_OBS = {'pairs_judged': 100, 'pairs_judged_ge3_fills': 60, 'fills_compared': 500, 'trades_compared': 150, 'pairs_judged_with_callback_market_orders': 40}


def _fills(events):
    calls, out = {}, []
    sub = {}
    for e in events:
        if e['k'] == 'submit':
            sub[e['o']] = e
        elif e['k'] == 'exec_call':
            calls[e['o']] = e
        elif e['k'] == 'exec_ret' and e['status'] == 'EXECUTED' and calls.get(e['o'], {}).get('status') == 'ACTIVE':
            out.append({'side': e['side'], 'type': e['type'], 'qty': e['qty'], 'price': e['price'],
                        'minute': e['executed_at'], 'reduce_only': e['reduce_only'], 'in_liq': e.get('in_liq', 0),
                        'in_match_submit': sub.get(e['o'], {}).get('in_match', 0)})
    return out


def _close(a, b):
    if a is None or b is None:
        return a is b
    if isinstance(a, str) or isinstance(b, str):
        return a == b
    return abs(a - b) <= 1e-9 * max(1.0, abs(a), abs(b))


def run_job(job):
    rng = random.Random(job['seed'])
    tf = rng.choice(['1m', '3m', '5m', '15m', '30m', '1h'])
    k = gen.TF_MIN[tf]
    n_candles = rng.choice([40, 60, 90])
    minutes = k * n_candles if k > 1 else rng.choice([300, 600])
    if job.get('odd_length') and k > 1:
        minutes += rng.randrange(1, k)
    dts = rng.choice([[], [], ['15m'], ['1h'], ['3m'], ['5m', '1h'], ['2h']])
    spec = specgen.random_session(rng, minutes=min(minutes, 2400), nsym=1, tfs=[tf], data_tfs=dts if dts else None,
                                  warmup=rng.choice([0, 240]), fast=False,
                                  family=rng.choice(['walk', 'gappy', 'gappy', 'lattice', 'lattice_gappy', 'trend', 'flatty']))
    if not dts:
        spec['data_routes'] = []
    sc = spec['routes'][0]['script']
    # exits spaced wider than a trading candle usually moves, so that the precondition holds often
    vol = list(spec['candles'].values())[0].get('vol', 0.002)
    wide = max(0.004, 4 * vol * (k ** 0.5))
    sc['sl'] = wide if sc['sl'] else None
    sc['tp'] = wide * rng.choice([1, 1.5]) if sc['tp'] or not sc['sl'] else None
    sc['sl_points'] = sc['tp_points'] = 1
    sc['entry'] = rng.choice(['market', 'limit', 'stop', 'market'])
    sc['entry_dist'] = wide / 2
    sc['update_kinds'] = [x for x in sc['update_kinds'] if x != 'near_tp'] or ['trail_sl']
    sc['observe'] = 'light'
    if job['i'] % 4 in (0, 2) and spec['config']['type'] == 'futures':
        # a resting entry whose fill callback scales in with a MARKET order (priced from the position's mark price at the fill)
        sc['entry'] = rng.choice(['limit', 'stop'])
        sc['on_open_add'] = 0.5
        sc['on_increased'] = 'retarget' if job['i'] % 4 == 2 else 'retarget_price'
        sc['p_open_liquidate'] = None
    if job['i'] % 2 == 1:
        sc['decide_on_ohl'] = True     # a strategy that reads open/high/low of its trading candles
    if sc.get('lattice'):
        sc['sl'] = sc['sl'] and max(sc['sl'], 0.03)
        sc['tp'] = sc['tp'] and max(sc['tp'], 0.03)
    allc = session.build_candles(spec)
    a = session.run_session(dict(spec, fast=False), candles={s: x.copy() for s, x in allc.items()})
    b = session.run_session(dict(spec, fast=True), candles={s: x.copy() for s, x in allc.items()})
    cnt, viol = {'pairs': 1}, []
    fa, fb = _fills(a['events']), _fills(b['events'])
    # precondition on the normal run
    w = k * 60000
    per_win, liq = {}, False
    for f in fa:
        if f['in_liq']:
            liq = True
        if f['type'] in ('LIMIT', 'STOP'):
            key = (int(f['minute']) - 60000) // w
            per_win[key] = per_win.get(key, 0) + 1
    pre = (not liq) and all(v <= 1 for v in per_win.values()) and a['error'] is None
    if not pre:
        cnt['pairs_precondition_failed'] = 1
        if a['error'] is not None:
            cnt['pairs_normal_run_aborted:' + a['error']['type']] = 1
        return {'viol': [], 'cnt': cnt, 'sigs': []}
    cnt['pairs_judged'] = 1
    if sc.get('on_open_add') and any(e['k'] == 'submit' and e['type'] == 'MARKET' and e.get('in_match') for e in a['events']):
        cnt['pairs_judged_with_callback_market_orders'] = 1
    cnt[f'judged_tf:{tf}'] = 1
    if len(fa) >= 3:
        cnt['pairs_judged_ge3_fills'] = 1

    def v(key, msg, **wt):
        wt['spec'] = spec
        viol.append({'key': key, 'msg': msg, 'witness': wt})

    if b['error'] is not None:
        key = 'fast_run_raises:' + b['error']['type']
        if b['error']['type'] == 'ValueError' and 'Sent only' in b['error']['msg']:
            key = 'fast_raises_on_truncated_last_chunk'
        v(key, f"normal run completed, fast run raised {b['error']['type']}: {b['error']['msg']}", tb=b['error']['tb'])
        return {'viol': viol, 'cnt': cnt, 'sigs': []}
    # executed orders
    cnt['fills_compared'] = len(fa)
    if len(fa) != len(fb):
        v(_classify(fa, fb), f'{len(fa)} fills in the normal run, {len(fb)} in the fast run', normal=fa[:30], fast=fb[:30])
    else:
        for i, (x, y) in enumerate(zip(fa, fb)):
            same = x['side'] == y['side'] and x['type'] == y['type'] and _close(x['qty'], y['qty']) and \
                _close(x['price'], y['price']) and x['minute'] == y['minute']
            if not same:
                v(_classify(fa, fb, i), f'fill {i} differs: normal {x} fast {y}', normal=fa[max(0, i - 3):i + 3],
                  fast=fb[max(0, i - 3):i + 3])
                break
    # closed trades and balances
    ra, rb = a['result'], b['result']
    ta, tb = (ra or {}).get('trades_list'), (rb or {}).get('trades_list')
    ma, mb = ra['metrics'], rb['metrics']
    for key in ('total', 'finishing_balance', 'net_profit', 'fee', 'longs_count', 'shorts_count', 'win_rate'):
        if key in ma or key in mb:
            if not _close(ma.get(key), mb.get(key)):
                if not viol:
                    v('final_metrics_differ', f'metric {key}: normal {ma.get(key)} fast {mb.get(key)}')
                break
    cnt['trades_compared'] = int(ma.get('total', 0) or 0)
    sa, sb = _trades(a['events']), _trades(b['events'])
    if sa != sb and not viol:
        v('closed_trades_differ', f'normal {sa[:6]} fast {sb[:6]}')
    ba, bb = _final_balance(a['events']), _final_balance(b['events'])
    if ba is not None and bb is not None and not all(_close(ba[kk], bb.get(kk)) for kk in ba) and not viol:
        v('final_balances_differ', f'normal {ba} fast {bb}')
    sig = repr((tf, tuple(d['timeframe'] for d in spec['data_routes']), spec['config']['type'],
                tuple((f['type'], f['side']) for f in fa[:12])))
    res = {'viol': viol, 'cnt': cnt, 'sigs': [sig] if len(fa) >= 3 else []}
    if job['i'] < 3:
        res['sample'] = {'tf': tf, 'data_routes': spec['data_routes'], 'type': spec['config']['type'],
                         'minutes': minutes, 'fills': fa[:8]}
    return res


def _classify(fa, fb, i=None):
    # market orders created by a hook during a fill inside a chunk are flushed only at the end of the chunk
    if i is not None:
        x, y = fa[i], fb[i]
        if x['type'] == 'MARKET' and y['type'] == 'MARKET' and x['in_match_submit'] and x['minute'] != y['minute'] \
                and _close(x['price'], y['price']):
            return 'fast_defers_market_order_created_in_chunk'
    return 'executed_orders_differ'


def _trades(events):
    """closed-trade summaries as seen by the strategy in on_close_position hooks: (time, position before)"""
    out = []
    for e in events:
        if e['k'] == 'hook' and e['hook'] == 'on_close_position':
            out.append((e['t'], round(e.get('bal', 0), 6)))
    return out


def _final_balance(events):
    for e in reversed(events):
        if e['k'] == 'hook' and e['hook'] == 'terminate':
            return {'bal': e.get('bal')}
    return None


def make_jobs(tier, seed):
    rng = random.Random(120000 + seed)
    n = 520 if tier == 'quick' else 30000
    return [{'kind': 'pair', 'seed': rng.randrange(1 << 30), 'i': i, 'odd_length': i % 6 == 5} for i in range(n)]
