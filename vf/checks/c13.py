"""C13 - indicator series are causal: value i depends only on candles 0..i.

Differential monitor over the real indicator functions: f(X[:k], sequential=True)[field] must equal
f(X, sequential=True)[field][:k] for every public indicator that accepts `sequential`, default and non-default
parameters, structured candle series and several prefix lengths. Workers run with numba's bounds checker
(NUMBA_BOUNDSCHECK=1, separate kernel cache) so that an out-of-range index inside a kernel raises instead of reading or
writing foreign memory; the thorough tier repeats the default-parameter cases in the normal JIT mode and compares a
sample under NUMBA_DISABLE_JIT=1.
"""
import random

import numpy as np

from .. import indlib

CRASH_IS_VIOLATION = True     # a worker dying from a signal while it runs indicator code is a finding, not noise
PROP = 'C13'
RULE = ('every public indicator with a `sequential` argument x (default + non-default parameter sets drawn from the signature: '
        'periods 2..60, every source type, matype/devtype where present) x series {walk, trend, flat-with-step, spikes, alternating} '
        'x prefix lengths {7, 23, 45, ~n/3.., n/2, n-1, n-order}; plus a repeatability probe (same call twice with the heap perturbed in '
        'between); every call gets a private copy of the series, which must come back unmodified. distinct = distinct (indicator, parameter set, series kind, prefix); non-trivial = both calls returned and the '
        'prefix has at least one finite value.')
ASSUMPTIONS = ['relative tolerance 1e-9, absolute 1e-12 x output scale, NaN == NaN', 'a prefix on which the function raises while '
               'the full series works is skipped and counted', 'the extrema detector (minmax) is exempt in its last `order` positions',
               'string-valued fields (labels such as buy/sell) are not judged on series with systematic ties (alternating, flat, lattice)']
MIN_OBS = {'indicators_compared': 150, 'comparisons': 2500, 'field_comparisons': 4000, 'repeatability_probes': 150}
SHARD_TIMEOUT = 2400
TIE_PRONE = ('alternating', 'flat', 'lattice', 'constant', 'flattail')
JOB_TIMEOUT = 900


def job_env(job):
    mode = job.get('mode', 'bc')
    if mode == 'bc':
        return {'NUMBA_BOUNDSCHECK': '1', '_numba_tag': 'bc'}
    if mode == 'nojit':
        return {'NUMBA_DISABLE_JIT': '1', '_numba_tag': 'nojit'}
    return {}


def run_job(job):
    rng = random.Random(job['seed'])
    table = {n: (f, sig) for n, f, sig in indlib.indicators()}
    viol, cnt, sigs = [], {}, []
    sample = None
    for name in job['names']:
        if name not in table:
            continue
        f, sig = table[name]
        if 'sequential' not in sig.parameters:
            cnt['skipped_no_sequential'] = cnt.get('skipped_no_sequential', 0) + 1
            continue
        psets = indlib.param_sets(name, sig, rng, job['nparams'], small=True)
        compared_any = False
        seen_keys = set()
        cases = [(pi, kw, kind, job['n']) for pi, kw in enumerate(psets) for kind in job['kinds']]
        if job.get('long_n'):
            # one long sequential input per indicator (several days of 1m candles): closed forms anchored at the END of the
            # array, underflowing scale factors ... only show on long inputs
            cases.append((900, {}, 'walk', job['long_n']))
        for pi, kw, kind, n in cases:
            for _once in (0,):
                X = indlib.series(kind, n, rng.randrange(1 << 30))
                X2 = indlib.series('walk', n, rng.randrange(1 << 30))
                Xa, X2a = X.copy(), X2.copy()
                try:
                    full = indlib.fields(indlib.call(name, f, sig, Xa, kw, True, X2a))
                    full = {k_: (np.array(v_, copy=True) if isinstance(v_, np.ndarray) else v_) for k_, v_ in full.items()}
                    cnt['input_unmodified_checks'] = cnt.get('input_unmodified_checks', 0) + 1
                    if not (np.array_equal(Xa, X, equal_nan=True) and np.array_equal(X2a, X2, equal_nan=True)):
                        # the differential below would compare against an input the indicator itself has rewritten
                        k_ = f'input_modified:{name}'
                        if k_ not in seen_keys:
                            seen_keys.add(k_)
                            viol.append({'key': k_, 'msg': f'{name}({kw}) wrote into the candle array it was given',
                                         'witness': {'indicator': name, 'params': kw, 'series': kind, 'n': n}})
                except Exception as ex:
                    cnt['full_series_raises'] = cnt.get('full_series_raises', 0) + 1
                    if pi == 0 and kind == 'walk':
                        cnt[f'default_raises:{name}:{type(ex).__name__}'] = 1
                    if type(ex).__name__ == 'IndexError' and 'out of bounds' in str(ex) and pi == 0:
                        k_ = f'kernel_index_out_of_bounds:{name}'
                        if k_ not in seen_keys:
                            seen_keys.add(k_)
                            viol.append({'key': k_, 'msg': f'{name}({kw}) on {kind} n={n}: {ex!r}',
                                         'witness': {'indicator': name, 'params': kw, 'series': kind, 'n': n}})
                    continue
                order = kw.get('order', 3) if name == 'minmax' else 0
                # (short prefixes too: inputs shorter than an indicator's own look-back take separate code paths)
                ks = {7, 23, 45, max(70, n // 3), n // 2 + 1, n - 1, n - max(order, 1) - 1}
                if pi == 0 or kind == job['kinds'][0]:
                    ks |= {1, 2, 3, 5, 12}
                # prefixes that END on a candle tying with its predecessor (or without a trade): a rule that settles such a
                # candle from its successor shows only there
                sp = [t for t in indlib.special_positions(X) if 8 <= t < n - 2]
                if sp and n <= 1000:
                    late = [t for t in sp if t >= 60] or sp
                    for t in rng.sample(late, min(3, len(late))) + rng.sample(sp, 1):
                        ks.add(t + 1)
                        cnt['prefixes_ending_on_special_candle'] = cnt.get('prefixes_ending_on_special_candle', 0) + 1
                ks = sorted(ks)
                for k in ks:
                    if k >= n:
                        continue
                    try:
                        pre = indlib.fields(indlib.call(name, f, sig, X[:k].copy(), kw, True, X2[:k].copy()))
                    except Exception as ex:
                        if type(ex).__name__ == 'IndexError' and str(ex) == 'index is out of bounds':
                            # the message of numba's bounds checker (NUMBA_BOUNDSCHECK=1 in these workers): without the
                            # checker the compiled loop reads or writes memory outside its arrays on this prefix - the value
                            # then depends on whatever lies there (or the interpreter dies), not on candles 0..i
                            cnt['kernel_out_of_bounds_on_prefix'] = cnt.get('kernel_out_of_bounds_on_prefix', 0) + 1
                            k_ = f'kernel_index_out_of_bounds:{name}'
                            if k_ not in seen_keys:
                                seen_keys.add(k_)
                                viol.append({'key': k_, 'msg': f'{name}({kw}) on the first {k} candles of a {kind} series: a compiled '
                                                                f'loop indexes outside its arrays ({ex!r} under the bounds checker)',
                                             'witness': {'indicator': name, 'params': kw, 'series': kind, 'n': n, 'prefix': k}})
                        cnt['prefix_raises_skipped'] = cnt.get('prefix_raises_skipped', 0) + 1
                        continue
                    cnt['comparisons'] = cnt.get('comparisons', 0) + 1
                    compared_any = True
                    for fld, v in pre.items():
                        a, b = indlib.as_array(v), indlib.as_array(full.get(fld))
                        if a is None or b is None or a.ndim == 0:
                            continue
                        if kind in TIE_PRONE and (a.dtype == object or a.dtype.kind in 'USb') and \
                                any(isinstance(x_, str) for x_ in a.tolist()):
                            # a label derived from comparing two nearly equal numbers ('buy' / 'sell') may flip with the last
                            # ulp of a sum taken over a longer array; series with systematic ties are not judged for labels
                            cnt['label_fields_on_tie_prone_series_skipped'] = cnt.get('label_fields_on_tie_prone_series_skipped', 0) + 1
                            continue
                        cnt['field_comparisons'] = cnt.get('field_comparisons', 0) + 1
                        upto = len(a)
                        if name == 'minmax':
                            upto = max(0, len(a) - order)
                        if len(a) != k:
                            # length is C14's subject; compare what overlaps (and only positions that belong to candles of
                            # the prefix)
                            upto = min(upto, len(a), len(b), k)
                        bb = b[:len(a)] if len(b) >= len(a) else b
                        if kind in TIE_PRONE and a.dtype.kind == 'f' and bb.dtype.kind == 'f' and len(bb) >= upto:
                            # zero-variance windows: rounding noise divided by an exact zero is +inf, -inf or nan depending on
                            # the last ulp of a sum taken over a longer array; positions that are non-finite in BOTH results are
                            # not judged on these series (finite against non-finite still is)
                            both = ~np.isfinite(a[:upto]) & ~np.isfinite(bb[:upto])
                            if both.any() and (np.isinf(a[:upto][both]).any() or np.isinf(bb[:upto][both]).any()):
                                cnt['nonfinite_pairs_on_tie_prone_series_not_judged'] = cnt.get('nonfinite_pairs_on_tie_prone_series_not_judged', 0) + 1
                                a, bb = a.copy(), bb.copy()
                                a[:upto][both] = np.nan
                                bb[:upto][both] = np.nan
                        i = indlib.equal_values(a[:upto], bb[:upto], scale=indlib.scale_of(X, b))
                        if i is not None:
                            key = f'noncausal:{name}:{fld}'
                            if key not in seen_keys:
                                seen_keys.add(key)
                                ai = a[i] if i >= 0 else None
                                bi = bb[i] if i >= 0 else None
                                viol.append({'key': key,
                                             'msg': f'{name}({kw}) field {fld} on {kind} series: value at index {i} is {ai!r} on the '
                                                    f'first {k} candles but {bi!r} when {n - k} later candles are appended',
                                             'witness': {'indicator': name, 'params': kw, 'series': kind, 'n': n, 'prefix': k,
                                                         'index': i, 'prefix_value': repr(ai), 'full_value': repr(bi)}})
                    sigs.append(repr((name, pi, kind, k)))
                # repeatability probe (default parameters, first series only)
                if pi == 0 and kind == job['kinds'][0]:
                    try:
                        junk = [np.full(n * 6, 1e300) for _ in range(8)]
                        del junk
                        again = indlib.fields(indlib.call(name, f, sig, X.copy(), kw, True, X2.copy()))
                        cnt['repeatability_probes'] = cnt.get('repeatability_probes', 0) + 1
                        for fld, v in again.items():
                            a, b = indlib.as_array(v), indlib.as_array(full.get(fld))
                            if a is None or b is None or a.ndim == 0:
                                continue
                            # (not bit-exact: numpy's vectorised log/exp may differ in the last ulp with the alignment of the input buffer)
                            i = indlib.equal_values(a, b, scale=indlib.scale_of(X, b))
                            if i is not None:
                                viol.append({'key': f'not_repeatable:{name}:{fld}',
                                             'msg': f'{name} returned different values for equal input (index {i})',
                                             'witness': {'indicator': name, 'params': kw}})
                    except Exception:
                        pass
        if compared_any:
            cnt['indicators_compared'] = cnt.get('indicators_compared', 0) + 1
        else:
            cnt[f'never_compared:{name}'] = 1
        if sample is None and job.get('want_sample'):
            sample = {'indicator': name, 'parameter_sets': psets[:3], 'series': job['kinds'], 'n': job['n'], 'mode': job.get('mode')}
    return {'viol': viol, 'cnt': cnt, 'sigs': sigs, 'sample': sample}


def make_jobs(tier, seed):
    import os
    import subprocess
    rng = random.Random(130000 + seed)
    # the indicator list is read in a worker-like interpreter; here only names are needed and the runner process has no jesse
    names = _names()
    jobs = []
    chunk = 4
    for i in range(0, len(names), chunk):
        jobs.append({'names': names[i:i + chunk], 'seed': rng.randrange(1 << 30), 'mode': 'bc',
                     'nparams': 5 if tier == 'quick' else 30, 'n': 160, 'long_n': 4000,
                     'kinds': ['walk', 'spikes', 'gappy', 'zerovol', 'ties', 'quietstart'] if tier == 'quick' else ['walk', 'trend', 'flat', 'spikes', 'alternating', 'gappy', 'lattice', 'zerovol', 'tiny', 'flattail', 'outside', 'ties', 'quietstart'],
                     'want_sample': i == 0})
    if tier == 'thorough':
        for rep, n_ in enumerate([120, 200, 260, 330, 160, 500]):
            for i in range(0, len(names), chunk):
                jobs.append({'names': names[i:i + chunk], 'seed': rng.randrange(1 << 30), 'mode': 'bc', 'nparams': 40, 'n': n_,
                             'kinds': ['walk', 'trend', 'flat', 'spikes', 'alternating', 'gappy', 'lattice', 'zerovol', 'tiny']})
        for i in range(0, len(names), chunk):
            jobs.append({'names': names[i:i + chunk], 'seed': rng.randrange(1 << 30), 'mode': 'bc', 'nparams': 4, 'n': 400,
                         'kinds': ['walk', 'trend', 'spikes']})
            jobs.append({'names': names[i:i + chunk], 'seed': rng.randrange(1 << 30), 'mode': 'jit', 'nparams': 0, 'n': 300,
                         'kinds': ['walk', 'trend']})
        for i in range(0, len(names), 8):
            jobs.append({'names': names[i:i + 8], 'seed': rng.randrange(1 << 30), 'mode': 'nojit', 'nparams': 0, 'n': 120,
                         'kinds': ['walk']})
    return jobs


def _names():
    import ast
    import os
    from .. import env
    path = os.path.join(env.REPO, 'jesse', 'indicators', '__init__.py')
    tree = ast.parse(open(path).read())
    out = []
    for node in ast.walk(tree):
        if isinstance(node, ast.ImportFrom):
            for a in node.names:
                out.append(a.asname or a.name)
    return sorted(set(n for n in out if not n.startswith('_')))
