"""C15 - indicators match their definitions, ranges and orderings.

Reference-model monitor: the real indicator functions are compared with independent straightforward implementations
of their textbook definitions (plain Python/numpy loops written for this check) on random and adversarial candle
series, all periods 2..60 and all source types; the moving-average selector is compared with the selected moving
average called directly; range / ordering invariants and price homogeneity are asserted on every output.
"""
import math
import random

import numpy as np

from .. import indlib
from .c13 import job_env  # noqa: F401  (same worker modes)

CRASH_IS_VIOLATION = True     # a worker dying from a signal while it runs indicator code is a finding, not noise
PROP = 'C15'
RULE = ('(indicator, parameters, series) triples: window functions compared at every index with a full window; recursive smoothers '
        'in their recurrence step at every index after the seed and in value once (1-alpha)^(i-seed) < 1e-10; ma(matype=k) vs the k-th '
        'moving average for every valid matype; invariants and homogeneity (lambda in {1e-4, 3, 1e4}) on every output. Series: random '
        'walk, trend, constant, monotone, alternating, huge (3e7) and tiny (2e-6) prices; periods 2..60; every source type. distinct '
        '= distinct (indicator, period, source type, series kind); non-trivial = at least one index was compared.')
ASSUMPTIONS = ['tolerance 1e-7 x natural scale of the output (price scale, or 100 for oscillators); kernels such as the rolling std '
               'use E[x^2] - E[x]^2', 'trima = triangular weights (TA-Lib convention); stddev/var = population; cci constant 0.015; '
               'rsi / atr / adx family = Wilder smoothing seeded with the simple average (sum) of the first period values',
               'positions before the first full window are not judged (conventions differ)']
MIN_OBS = {'triples': 3000, 'reference_comparisons': 3000, 'recurrence_checks': 600, 'decayed_value_checks': 300,
           'ma_dispatch_checks': 300, 'invariant_checks': 3000, 'homogeneity_checks': 600,
           'stage_parameter_checks': 300, 'stoch_with_different_stage_types': 50,
           'series_input_checks': 300, 'macd_fast_period_above_slow': 40}
SHARD_TIMEOUT = 2400
JOB_TIMEOUT = 900

MA_TABLE = {0: 'sma', 1: 'ema', 2: 'wma', 3: 'dema', 4: 'tema', 5: 'trima', 6: 'kama', 9: 'fwma', 10: 'hma', 11: 'linearreg',
            12: 'wilders', 13: 'sinwma', 14: 'supersmoother', 15: 'supersmoother_3_pole', 16: 'gauss', 17: 'high_pass',
            18: 'high_pass_2_pole', 20: 'jma', 21: 'reflex', 22: 'trendflex', 23: 'smma', 24: 'vwma', 25: 'pwma', 26: 'swma',
            27: 'alma', 28: 'hwma', 29: 'vwap', 30: 'nma', 31: 'edcf', 32: 'mwdx', 33: 'maaq', 34: 'srwma', 35: 'sqwma',
            36: 'vpwma', 37: 'cwma', 38: 'jsa', 39: 'epma'}
NO_PERIOD = {28, 29, 32}


def src(c, st):
    o, cl, h, l, v = c[:, 1], c[:, 2], c[:, 3], c[:, 4], c[:, 5]
    return {'close': cl, 'high': h, 'low': l, 'open': o, 'volume': v, 'hl2': (h + l) / 2, 'hlc3': (h + l + cl) / 3,
            'ohlc4': (o + h + l + cl) / 4}[st]


# ---- textbook references (plain loops) ------------------------------------------------------------
def r_window(x, p, fn):
    out = np.full(len(x), np.nan)
    for i in range(p - 1, len(x)):
        out[i] = fn(x[i - p + 1:i + 1])
    return out


def r_sma(x, p):
    return r_window(x, p, lambda w: sum(w) / p)


def r_wma(x, p):
    ws = list(range(1, p + 1))
    return r_window(x, p, lambda w: sum(a * b for a, b in zip(w, ws)) / sum(ws))


def r_trima(x, p):
    if p % 2:
        ws = list(range(1, p // 2 + 2)) + list(range(p // 2, 0, -1))
    else:
        ws = list(range(1, p // 2 + 1)) + list(range(p // 2, 0, -1))
    return r_window(x, p, lambda w: sum(a * b for a, b in zip(w, ws)) / sum(ws))


def r_std(x, p):
    def f(w):
        m = sum(w) / p
        return math.sqrt(sum((a - m) ** 2 for a in w) / p)
    return r_window(x, p, f)


def r_tr(c):
    h, l, cl = c[:, 3], c[:, 4], c[:, 2]
    out = np.empty(len(c))
    out[0] = h[0] - l[0]
    for i in range(1, len(c)):
        out[i] = max(h[i] - l[i], abs(h[i] - cl[i - 1]), abs(l[i] - cl[i - 1]))
    return out


def r_wilder(x, p, start):
    """Wilder smoothing seeded at index `start` with the mean of x[start-p+1..start]"""
    out = np.full(len(x), np.nan)
    if start >= len(x):
        return out
    out[start] = sum(x[start - p + 1:start + 1]) / p
    for i in range(start + 1, len(x)):
        out[i] = (out[i - 1] * (p - 1) + x[i]) / p
    return out


def r_ema_from(x, alpha, start, seed):
    out = np.full(len(x), np.nan)
    out[start] = seed
    for i in range(start + 1, len(x)):
        out[i] = out[i - 1] + alpha * (x[i] - out[i - 1])
    return out


class Judge:
    def __init__(self, viol, cnt, ctx):
        self.viol, self.cnt, self.ctx, self.seen = viol, cnt, ctx, set()

    def c(self, k, n=1):
        self.cnt[k] = self.cnt.get(k, 0) + n

    def bad(self, key, msg, **w):
        if key in self.seen:
            return
        self.seen.add(key)
        w.update(self.ctx)
        self.viol.append({'key': key, 'msg': f'{msg} [{self.ctx}]', 'witness': w})

    def same(self, key, got, ref, scale, lo=0, tol=1e-7, counter='reference_comparisons'):
        got, ref = np.asarray(got, dtype=float), np.asarray(ref, dtype=float)
        if got.shape != ref.shape:
            return self.bad(key + ':shape', f'{key}: shape {got.shape} vs reference {ref.shape}')
        idx = [i for i in range(lo, len(ref)) if not math.isnan(ref[i])]
        if not idx:
            return
        self.c(counter)
        g, r = got[idx], ref[idx]
        with np.errstate(invalid='ignore'):
            okm = np.abs(g - r) <= tol * scale + 1e-9 * np.abs(r)
        okm |= np.isinf(g) & np.isinf(r) & (np.sign(g) == np.sign(r))
        if not np.all(okm):
            j = int(np.flatnonzero(~okm)[0])
            self.bad(key, f'{key}: index {idx[j]} is {g[j]!r}, definition gives {r[j]!r} (scale {scale:.3g})', index=idx[j])

    def rng_check(self, key, arr, lo, hi, eps):
        a = np.asarray(arr, dtype=float)
        a = a[~np.isnan(a)]
        self.c('invariant_checks')
        if len(a) and (a.min() < lo - eps or a.max() > hi + eps):
            self.bad(key, f'{key}: values in [{a.min()!r}, {a.max()!r}] outside [{lo}, {hi}]')

    def ge(self, key, a, b, eps):
        a, b = np.asarray(a, dtype=float), np.asarray(b, dtype=float)
        m = ~(np.isnan(a) | np.isnan(b))
        self.c('invariant_checks')
        if m.any() and np.any(a[m] < b[m] - eps):
            i = int(np.flatnonzero(m & (a < b - eps))[0])
            self.bad(key, f'{key}: index {i}: {a[i]!r} < {b[i]!r}')


def run_job(job):
    import jesse.indicators as ta
    rng = random.Random(job['seed'])
    viol, cnt, sigs = [], {}, []
    for t in range(job['n']):
        kind = rng.choice(job['kinds'])
        n = rng.choice([80, 300])
        X = indlib.series(kind, n, rng.randrange(1 << 30))
        p = rng.randint(2, 60)
        st = rng.choice(indlib.SOURCE_TYPES)
        x = src(X, st)
        pscale = float(np.max(np.abs(X[:, 1:5])))
        xs = max(float(np.max(np.abs(x))), 1e-300)
        ctx = {'series': kind, 'n': n, 'period': p, 'source_type': st, 'series_seed': 'see job'}
        J = Judge(viol, cnt, ctx)
        J.c('triples')
        sigs.append(repr((job['group'], p, st, kind)))
        h, l, cl, vol = X[:, 3], X[:, 4], X[:, 2], X[:, 5]
        tp = (h + l + cl) / 3
        try:
            if job['group'] == 'window':
                J.same('sma', ta.sma(X, p, source_type=st, sequential=True), r_sma(x, p), xs)
                J.same('wma', ta.wma(X, p, source_type=st, sequential=True), r_wma(x, p), xs)
                J.same('trima', ta.trima(X, p, source_type=st, sequential=True), r_trima(x, p), xs)
                sd = r_std(x, p)
                J.same('stddev', ta.stddev(X, p, source_type=st, sequential=True), sd, xs, tol=1e-6)
                v_ = ta.var(X, p, source_type=st, sequential=True)
                J.same('var', v_, sd ** 2, xs * xs, tol=1e-7)
                J.rng_check('var_negative', v_, 0.0, math.inf, 1e-9 * xs * xs)
                J.rng_check('stddev_negative', ta.stddev(X, p, source_type=st, sequential=True), 0.0, math.inf, 0.0)
                bb = ta.bollinger_bands(X, p, source_type=st, sequential=True)
                mid = r_sma(x, p)
                J.same('bollinger:middle', bb.middleband, mid, xs)
                J.same('bollinger:upper', bb.upperband, mid + 2 * sd, xs, tol=1e-6)
                J.same('bollinger:lower', bb.lowerband, mid - 2 * sd, xs, tol=1e-6)
                du, dd = rng.choice([0.5, 1.0, 1.5, 2.5, 3.0]), rng.choice([0.25, 1.0, 2.0, 3.5])
                bb2 = ta.bollinger_bands(X, p, du, dd, source_type=st, sequential=True)
                J.same('bollinger:upper:devup', bb2.upperband, mid + du * sd, xs, tol=1e-6, counter='stage_parameter_checks')
                J.same('bollinger:lower:devdn', bb2.lowerband, mid - dd * sd, xs, tol=1e-6, counter='stage_parameter_checks')
                J.same('bollinger:middle:dev', bb2.middleband, mid, xs, counter='stage_parameter_checks')
                J.ge('bollinger:upper>=middle', bb.upperband, bb.middleband, 0.0)
                J.ge('bollinger:middle>=lower', bb.middleband, bb.lowerband, 0.0)
                dc = ta.donchian(X, p, sequential=True)
                up = r_window(h, p, max)
                lo_ = r_window(l, p, min)
                J.same('donchian:upper', dc.upperband, up, pscale)
                J.same('donchian:lower', dc.lowerband, lo_, pscale)
                J.same('donchian:middle', dc.middleband, (up + lo_) / 2, pscale)
                J.ge('donchian:upper>=high', dc.upperband, np.where(np.isnan(dc.upperband), np.nan, h), 0.0)
                J.ge('donchian:low>=lower', np.where(np.isnan(dc.lowerband), np.nan, l), dc.lowerband, 0.0)
                hh, ll = up, lo_
                with np.errstate(invalid='ignore', divide='ignore'):
                    rawk = 100 * (cl - ll) / (hh - ll)
                    wr = -100 * (hh - cl) / (hh - ll)
                okm = (hh - ll) > 0
                rawk = np.where(okm, rawk, np.nan)
                wr = np.where(okm, wr, np.nan)
                sf = ta.stochf(X, p, 3, 0, sequential=True)
                J.same('stochf:k', sf.k, rawk, 100.0)
                J.same('stochf:d', sf.d, r_sma(rawk, 3), 100.0)
                so = ta.stoch(X, p, 3, 0, 3, 0, sequential=True)
                if okm[p - 1:].all():
                    k_ = r_sma(rawk, 3)
                    J.same('stoch:k', so.k, k_, 100.0)
                    J.same('stoch:d', so.d, r_sma(k_, 3), 100.0)
                # every smoothing stage has its own period and its own average type
                sk, sd = rng.randint(2, 6), rng.randint(2, 6)
                mk, md = rng.choice([(0, 2), (2, 0), (0, 0), (2, 2)])
                R = {0: r_sma, 2: r_wma}
                if okm[p - 1:].all():
                    so2 = ta.stoch(X, p, sk, mk, sd, md, sequential=True)
                    k2 = R[mk](rawk, sk)
                    J.same(f'stoch:k:stages', so2.k, k2, 100.0, counter='stage_parameter_checks')
                    J.same(f'stoch:d:stages', so2.d, R[md](k2, sd), 100.0, counter='stage_parameter_checks')
                    if mk != md:
                        J.c('stoch_with_different_stage_types')
                    sf2 = ta.stochf(X, p, sd, md, sequential=True)
                    J.same('stochf:k:stages', sf2.k, rawk, 100.0, counter='stage_parameter_checks')
                    J.same('stochf:d:stages', sf2.d, R[md](rawk, sd), 100.0, counter='stage_parameter_checks')
                    # %K does not depend on how %D is smoothed, whatever average type the second stage uses
                    for mt_ in (1, 3, 12, 5):
                        try:
                            sfm = ta.stochf(X, p, sd, mt_, sequential=True)
                            som = ta.stoch(X, p, sk, mk, sd, mt_, sequential=True)
                        except Exception:
                            J.c('stoch_stage_type_raises')
                            continue
                        J.same(f'stochf:k:d_type_{mt_}', sfm.k, rawk, 100.0, counter='stage_parameter_checks')
                        J.same(f'stoch:k:d_type_{mt_}', som.k, k2, 100.0, counter='stage_parameter_checks')
                    # non-sequential results are the last elements of the series
                    so1 = ta.stoch(X, p, sk, mk, sd, md, sequential=False)
                    for nm_, a1, a2 in (('k', so1.k, so2.k[-1]), ('d', so1.d, so2.d[-1])):
                        if not (abs(a1 - a2) <= 1e-7 or (math.isnan(a1) and math.isnan(a2))):
                            J.bad(f'stoch:{nm_}:single', f'stoch non-sequential {nm_} {a1!r} != last of series {a2!r}')
                J.rng_check('stochf:k range', sf.k, 0.0, 100.0, 1e-9)
                J.rng_check('stoch:k range', so.k, 0.0, 100.0, 1e-7)
                J.rng_check('stoch:d range', so.d, 0.0, 100.0, 1e-7)
                w_ = ta.willr(X, p, sequential=True)
                J.same('willr', w_, wr, 100.0)
                J.rng_check('willr range', w_, -100.0, 0.0, 1e-9)

                def cci_ref(w):
                    m = sum(w) / p
                    md = sum(abs(a - m) for a in w) / p
                    return float('nan') if md == 0 else (w[-1] - m) / (0.015 * md)
                J.same('cci', ta.cci(X, p, sequential=True), r_window(tp, p, cci_ref), 100.0, tol=1e-6)
                roc_ref = np.full(n, np.nan)
                mom_ref = np.full(n, np.nan)
                if n > p:
                    with np.errstate(divide='ignore', invalid='ignore'):
                        roc_ref[p:] = (x[p:] / x[:-p] - 1) * 100
                    mom_ref[p:] = x[p:] - x[:-p]
                J.same('roc', ta.roc(X, p, source_type=st, sequential=True), roc_ref, 100.0, tol=1e-7)
                J.same('mom', ta.mom(X, p, source_type=st, sequential=True), mom_ref, xs)
                # money flow index: window of p flows ending at i (judged from index p on)
                mf = tp * vol
                posf = np.zeros(n)
                negf = np.zeros(n)
                for i in range(1, n):
                    if tp[i] > tp[i - 1]:
                        posf[i] = mf[i]
                    elif tp[i] < tp[i - 1]:
                        negf[i] = mf[i]
                mfi_ref = np.full(n, np.nan)
                for i in range(p, n):
                    a, b = posf[i - p + 1:i + 1].sum(), negf[i - p + 1:i + 1].sum()
                    mfi_ref[i] = 100.0 if b == 0 else 100 - 100 / (1 + a / b)
                m_ = ta.mfi(X, p, sequential=True)
                J.same('mfi', m_, mfi_ref, 100.0, tol=1e-6)
                J.rng_check('mfi range', m_, 0.0, 100.0, 1e-9)
                J.same('midpoint', ta.midpoint(X, p, source_type=st, sequential=True),
                       r_window(x, p, lambda w: (max(w) + min(w)) / 2), xs)
                J.same('midprice', ta.midprice(X, p, sequential=True), (up + lo_) / 2, pscale)
                J.same('typprice', ta.typprice(X, sequential=True), tp, pscale)
                J.same('medprice', ta.medprice(X, sequential=True), (h + l) / 2, pscale)
                J.same('avgprice', ta.avgprice(X, sequential=True), (X[:, 1] + h + l + cl) / 4, pscale)
                J.same('wclprice', ta.wclprice(X, sequential=True), (h + l + 2 * cl) / 4, pscale)
                trr = r_tr(X)
                tr_ = ta.trange(X, sequential=True)
                J.same('trange', tr_, trr, pscale, lo=1)
                J.rng_check('trange negative', tr_, 0.0, math.inf, 0.0)
                ob = np.asarray(ta.obv(X, sequential=True), dtype=float)
                d_ob = np.diff(ob)
                exp = np.where(cl[1:] > cl[:-1], vol[1:], np.where(cl[1:] < cl[:-1], -vol[1:], 0.0))
                J.same('obv:step', d_ob, exp, max(1.0, float(vol.max())), tol=1e-6)
            elif job['group'] == 'recursive':
                n2 = 3000
                Xl = indlib.series(kind, n2, rng.randrange(1 << 30))
                xl = src(Xl, st)
                xls = max(float(np.max(np.abs(xl))), 1e-300)
                pl = float(np.max(np.abs(Xl[:, 1:5])))

                def decayed(alpha, seed_index):
                    k = math.ceil(math.log(1e-10) / math.log(1 - alpha)) if alpha < 1 else 1
                    return seed_index + k

                def step(key, y, xin, alpha, lo, scale):
                    y = np.asarray(y, dtype=float)
                    J.c('recurrence_checks')
                    lhs = y[lo + 1:] - y[lo:-1]
                    rhs = alpha * (xin[lo + 1:] - y[lo:-1])
                    m = ~(np.isnan(lhs) | np.isnan(rhs))
                    if m.any() and np.any(np.abs(lhs[m] - rhs[m]) > 1e-7 * scale):
                        i = int(np.flatnonzero(m & (np.abs(lhs - rhs) > 1e-7 * scale))[0]) + lo + 1
                        J.bad(key + ':recurrence', f'{key}: y[{i}] - y[{i - 1}] = {y[i] - y[i - 1]!r}, alpha (x - y_prev) = '
                                                   f'{alpha * (xin[i] - y[i - 1])!r} (alpha {alpha})', index=i)

                a = 2 / (p + 1)
                e = ta.ema(Xl, p, source_type=st, sequential=True)
                step('ema', e, xl, a, p - 1, xls)
                ref = r_ema_from(xl, a, p - 1, sum(xl[:p]) / p)
                J.same('ema:value', e, ref, xls, lo=p - 1)
                # dema / tema: value once every seed has decayed (own reference seeded differently on purpose)
                e1 = r_ema_from(xl, a, p - 1, sum(xl[:p]) / p)
                e1f = np.where(np.isnan(e1), xl, e1)
                e2 = r_ema_from(e1f, a, p - 1, e1f[p - 1])
                e3 = r_ema_from(e2 if not np.isnan(e2[p - 1]) else e1f, a, p - 1, e2[p - 1])
                lo_d = min(n2 - 1, 3 * decayed(a, p))
                if lo_d < n2 - 5:
                    J.same('dema:value', ta.dema(Xl, p, source_type=st, sequential=True), 2 * e1 - e2, xls, lo=lo_d,
                           counter='decayed_value_checks', tol=1e-6)
                    J.same('tema:value', ta.tema(Xl, p, source_type=st, sequential=True), 3 * e1 - 3 * e2 + e3, xls, lo=lo_d,
                           counter='decayed_value_checks', tol=1e-6)
                    mc = ta.macd(Xl, 12, 26, 9, source_type=st, sequential=True)
                    f12 = r_ema_from(xl, 2 / 13, 11, sum(xl[:12]) / 12)
                    s26 = r_ema_from(xl, 2 / 27, 25, sum(xl[:26]) / 26)
                    J.same('macd:line', mc.macd, f12 - s26, xls, lo=1200, counter='decayed_value_checks', tol=1e-6)
                aw = 1 / p
                w_ = ta.wilders(Xl, p, source_type=st, sequential=True)
                step('wilders', w_, xl, aw, 0, xls)
                r_ = ta.rma(Xl, p, source_type=st, sequential=True)
                step('rma', r_, xl, aw, 1, xls)
                sm = ta.smma(Xl, p, source_type=st, sequential=True)
                lo_s = decayed(aw, 0)
                if lo_s < n2 - 5:
                    # the weighted (adjusted) form converges to the Wilder recursion
                    step('smma', np.asarray(sm, dtype=float), xl, aw, lo_s, xls)
                # macd with its three periods drawn independently
                fp = rng.randint(2, 20)
                sp = fp + rng.randint(1, 30)
                gp = rng.randint(2, 15)
                if rng.random() < 0.25:
                    fp, sp = sp, fp          # the definition has no ordering requirement: EMA(fast) - EMA(slow) whatever the periods
                    J.c('macd_fast_period_above_slow')
                mc2 = ta.macd(Xl, fp, sp, gp, source_type=st, sequential=True)
                fr = r_ema_from(xl, 2 / (fp + 1), fp - 1, sum(xl[:fp]) / fp)
                sr = r_ema_from(xl, 2 / (sp + 1), sp - 1, sum(xl[:sp]) / sp)
                lo_m = 3 * decayed(2 / (max(sp, fp) + 1), max(sp, fp))
                if lo_m < n2 - 5:
                    J.same('macd:line:periods', mc2.macd, fr - sr, xls, lo=lo_m, counter='stage_parameter_checks', tol=1e-6)
                J.same('macd:hist=macd-signal:periods', mc2.hist, np.asarray(mc2.macd) - np.asarray(mc2.signal), xls, tol=1e-9,
                       counter='stage_parameter_checks')
                step('macd:signal:periods', mc2.signal, np.asarray(mc2.macd, dtype=float), 2 / (gp + 1), 1, xls)
                mc = ta.macd(Xl, 12, 26, 9, source_type=st, sequential=True)
                J.same('macd:hist=macd-signal', mc.hist, np.asarray(mc.macd) - np.asarray(mc.signal), xls, tol=1e-9)
                step('macd:signal', mc.signal, np.asarray(mc.macd, dtype=float), 2 / 10, 1, xls)
                trl = r_tr(Xl)
                at = ta.atr(Xl, p, sequential=True)
                J.same('atr', at, r_wilder(trl, p, p - 1), pl)
                J.rng_check('atr negative', at, 0.0, math.inf, 0.0)
                # rsi (Wilder)
                dx_ = np.diff(xl)
                g = np.where(dx_ > 0, dx_, 0.0)
                ls = np.where(dx_ < 0, -dx_, 0.0)
                ag, al = r_wilder(g, p, p - 1), r_wilder(ls, p, p - 1)
                rsi_ref = np.full(n2, np.nan)
                for i in range(p, n2):
                    A, B = ag[i - 1], al[i - 1]
                    rsi_ref[i] = 100.0 if B == 0 else 100 - 100 / (1 + A / B)
                rs_ = ta.rsi(Xl, p, source_type=st, sequential=True)
                J.same('rsi', rs_, rsi_ref, 100.0, tol=1e-6)
                J.rng_check('rsi range', rs_, 0.0, 100.0, 1e-9)
                lr = ta.lrsi(Xl, sequential=True)
                J.rng_check('lrsi range', np.asarray(lr, dtype=float) * 100, 0.0, 100.0, 1e-7)
                # directional movement family
                dmm = ta.dm(Xl, p, sequential=True)
                hL, lL = Xl[:, 3], Xl[:, 4]
                up_ = hL[1:] - hL[:-1]
                dn_ = lL[:-1] - lL[1:]
                rp = np.concatenate(([np.nan], np.where((up_ > dn_) & (up_ > 0), up_, 0.0)))
                rm = np.concatenate(([np.nan], np.where((dn_ > up_) & (dn_ > 0), dn_, 0.0)))
                for nm, sm_, raw in (('dm:plus', dmm.plus, rp), ('dm:minus', dmm.minus, rm)):
                    y = np.asarray(sm_, dtype=float)
                    J.c('recurrence_checks')
                    lhs = y[p + 1:]
                    rhs = y[p:-1] - y[p:-1] / p + raw[p + 1:]
                    if np.any(np.abs(lhs - rhs) > 1e-7 * pl * p):
                        J.bad(nm + ':recurrence', f'{nm}: Wilder sum recurrence violated')
                di_ = ta.di(Xl, p, sequential=True)
                J.rng_check('di:plus range', di_.plus, 0.0, 100.0, 1e-7)
                J.rng_check('di:minus range', di_.minus, 0.0, 100.0, 1e-7)
                ad = ta.adx(Xl, p, sequential=True)
                J.rng_check('adx range', ad, 0.0, 100.0, 1e-7)
                lo_a = decayed(aw, 2 * p) + decayed(aw, 0)
                if lo_a < n2 - 10 and kind in ('walk', 'trend', 'huge', 'tiny', 'spikes'):
                    pdi, mdi = np.asarray(di_.plus, dtype=float), np.asarray(di_.minus, dtype=float)
                    with np.errstate(invalid='ignore', divide='ignore'):
                        dxr = np.where(pdi + mdi == 0, 0.0, 100 * np.abs(pdi - mdi) / (pdi + mdi))
                    y = np.asarray(ad, dtype=float)
                    J.c('decayed_value_checks')
                    lhs = y[lo_a + 1:]
                    rhs = (y[lo_a:-1] * (p - 1) + dxr[lo_a + 1:]) / p
                    if np.any(np.abs(lhs - rhs) > 1e-5 * 100):
                        i = int(np.flatnonzero(np.abs(lhs - rhs) > 1e-3)[0]) + lo_a + 1
                        J.bad('adx:recurrence', f'adx[{i}] = {y[i]!r}, (adx_prev (p-1) + dx)/p = {rhs[i - lo_a - 1]!r}')
                # ADX step from an independent DX (strict Wilder rules: a candle whose high rises and whose low falls by the same
                # amount has no directional movement on either side), on every kind of series incl. tie-prone ones
                if n2 > 2 * p + 5:
                    cL = Xl[:, 2]
                    trr = np.concatenate(([0.0], np.maximum.reduce([hL[1:] - lL[1:], np.abs(hL[1:] - cL[:-1]), np.abs(lL[1:] - cL[:-1])])))
                    rp0, rm0 = np.nan_to_num(rp), np.nan_to_num(rm)

                    def wsum(x_):
                        out_ = np.full(n2, np.nan)
                        out_[p] = x_[1:p + 1].sum()
                        for i_ in range(p + 1, n2):
                            out_[i_] = out_[i_ - 1] - out_[i_ - 1] / p + x_[i_]
                        return out_
                    st_, sp_, sm2 = wsum(trr), wsum(rp0), wsum(rm0)
                    with np.errstate(invalid='ignore', divide='ignore'):
                        dip = np.where(st_ != 0, 100 * sp_ / st_, 0.0)
                        dim = np.where(st_ != 0, 100 * sm2 / st_, 0.0)
                        dx_ref = np.where(dip + dim != 0, 100 * np.abs(dip - dim) / (dip + dim), 0.0)
                    y = np.asarray(ad, dtype=float)
                    s0 = 2 * p + 1
                    J.c('adx_step_checks')
                    lhs = y[s0:]
                    rhs = (y[s0 - 1:-1] * (p - 1) + dx_ref[s0:]) / p
                    okk = np.isfinite(lhs) & np.isfinite(rhs)
                    if np.any(np.abs(lhs[okk] - rhs[okk]) > 1e-6 * 100):
                        i = int(np.flatnonzero(okk & (np.abs(lhs - rhs) > 1e-6 * 100))[0]) + s0
                        J.bad('adx:step_from_reference_dx', f'adx[{i}] = {y[i]!r}, (adx[{i - 1}] (p-1) + DX_ref[{i}])/p = {rhs[i - s0]!r} '
                              f'(DX_ref {dx_ref[i]!r}, period {p})', index=i)
                kc = ta.keltner(Xl, p, 2, 1, source_type=st, sequential=True)
                J.same('keltner:middle=ema', kc.middleband, np.asarray(e, dtype=float), xls, tol=1e-9)
                atr_ref = r_wilder(trl, p, p - 1)
                J.same('keltner:upper', kc.upperband, np.asarray(e, dtype=float) + 2 * atr_ref, max(xls, pl))
                J.same('keltner:lower', kc.lowerband, np.asarray(e, dtype=float) - 2 * atr_ref, max(xls, pl))
                km = rng.choice([0.5, 1.0, 1.5, 3.0])
                kc2 = ta.keltner(Xl, p, km, 1, source_type=st, sequential=True)
                J.same('keltner:upper:multiplier', kc2.upperband, np.asarray(e, dtype=float) + km * atr_ref, max(xls, pl),
                       counter='stage_parameter_checks')
                J.same('keltner:lower:multiplier', kc2.lowerband, np.asarray(e, dtype=float) - km * atr_ref, max(xls, pl),
                       counter='stage_parameter_checks')
                J.ge('keltner:upper>=middle', kc.upperband, kc.middleband, 0.0)
                J.ge('keltner:middle>=lower', kc.middleband, kc.lowerband, 0.0)
            elif job['group'] == 'ma':
                for mt, nm in MA_TABLE.items():
                    f = getattr(ta, nm)
                    try:
                        if mt in NO_PERIOD:
                            direct = f(X, source_type=st, sequential=True)
                        else:
                            direct = f(X, p, source_type=st, sequential=True)
                    except Exception as ex:
                        J.c('ma_direct_raises')
                        try:
                            ta.ma(X, p, matype=mt, source_type=st, sequential=True)
                            J.bad(f'ma:{mt}:{nm}:selector_works_direct_raises', f'{nm} raises {ex!r} directly but ma(matype={mt}) returns')
                        except Exception:
                            pass
                        continue
                    try:
                        via = ta.ma(X, p, matype=mt, source_type=st, sequential=True)
                    except Exception as ex:
                        J.bad(f'ma:{mt}:{nm}:raises', f'ma(matype={mt}) raises {ex!r} while {nm} works')
                        continue
                    J.c('ma_dispatch_checks')
                    i = indlib.equal_values(np.asarray(via, dtype=float), np.asarray(direct, dtype=float), rel=0.0, absl=0.0)
                    if i is not None:
                        J.bad(f'ma:{mt}:{nm}', f'ma(period={p}, matype={mt}, source_type={st}) differs from {nm} at index {i}', index=i)
                    # the band indicators take the same selector argument: their middle band is that moving average of the
                    # selected source (volume-weighted types included)
                    if mt not in NO_PERIOD:
                        for bname, bcall in (('bollinger_bands', lambda: ta.bollinger_bands(X, p, matype=mt, source_type=st, sequential=True)),
                                             ('keltner', lambda: ta.keltner(X, p, matype=mt, source_type=st, sequential=True))):
                            try:
                                mid_ = np.asarray(bcall().middleband, dtype=float)
                            except Exception:
                                J.c('band_call_raises')
                                continue
                            J.c('band_middle_checks')
                            i = indlib.equal_values(mid_, np.asarray(direct, dtype=float), rel=1e-12, absl=1e-12 * xs)
                            if i is not None:
                                J.bad(f'{bname}:middle:matype{mt}', f'{bname}(period={p}, matype={mt}, source_type={st}).middleband differs '
                                      f'from {nm} of the same source at index {i}: {mid_[i]!r} vs {np.asarray(direct, dtype=float)[i]!r}', index=i)
                    # non-sequential too
                    s1 = ta.ma(X, p, matype=mt, source_type=st, sequential=False)
                    s2 = f(X, source_type=st, sequential=False) if mt in NO_PERIOD else f(X, p, source_type=st, sequential=False)
                    if indlib.equal_values(np.array([s1], dtype=float), np.array([s2], dtype=float), rel=0.0, absl=0.0) is not None:
                        J.bad(f'ma:{mt}:{nm}:single', f'ma(matype={mt}) non-sequential {s1!r} != {nm} {s2!r}')
                    # the same through a plain series (contiguous float64, as a strategy hands its own numbers over): same
                    # dispatch, and the caller's array comes back untouched
                    x1 = np.ascontiguousarray(x, dtype=np.float64).copy()
                    x1_before = x1.copy()
                    x2 = x1.copy()
                    try:
                        d1 = f(x2, sequential=True) if mt in NO_PERIOD else f(x2, p, sequential=True)
                        v1 = ta.ma(x1, p, matype=mt, sequential=True)
                    except Exception:
                        J.c('series_input_raises')
                    else:
                        J.c('series_input_checks')
                        if not (np.array_equal(x1, x1_before, equal_nan=True) and np.array_equal(x2, x1_before, equal_nan=True)):
                            J.bad(f'input_modified:ma:{mt}:{nm}', f'{nm} / ma(matype={mt}) wrote into the series it was given '
                                                                  f'(period {p})')
                        elif indlib.equal_values(np.asarray(v1, dtype=float), np.asarray(d1, dtype=float), rel=0.0, absl=0.0) is not None:
                            J.bad(f'ma:{mt}:{nm}:series', f'ma(series, period={p}, matype={mt}) differs from {nm}(series, {p})')
            elif job['group'] == 'homogeneity':
                for lam in (1e-4, 3.0, 1e4):
                    Y = X.copy()
                    Y[:, 1:5] *= lam
                    for nm, call in (('sma', lambda c: ta.sma(c, p, source_type=st, sequential=True)),
                                     ('ema', lambda c: ta.ema(c, p, source_type=st, sequential=True)),
                                     ('wma', lambda c: ta.wma(c, p, source_type=st, sequential=True)),
                                     ('dema', lambda c: ta.dema(c, p, source_type=st, sequential=True)),
                                     ('tema', lambda c: ta.tema(c, p, source_type=st, sequential=True)),
                                     ('trima', lambda c: ta.trima(c, p, source_type=st, sequential=True)),
                                     ('smma', lambda c: ta.smma(c, p, source_type=st, sequential=True)),
                                     ('wilders', lambda c: ta.wilders(c, p, source_type=st, sequential=True)),
                                     ('midpoint', lambda c: ta.midpoint(c, p, source_type=st, sequential=True)),
                                     ('midprice', lambda c: ta.midprice(c, p, sequential=True)),
                                     ('typprice', lambda c: ta.typprice(c, sequential=True)),
                                     ('atr', lambda c: ta.atr(c, p, sequential=True)),
                                     ('bollinger_upper', lambda c: ta.bollinger_bands(c, p, source_type=st, sequential=True).upperband),
                                     ('donchian_lower', lambda c: ta.donchian(c, p, sequential=True).lowerband),
                                     ('keltner_lower', lambda c: ta.keltner(c, p, source_type=st, sequential=True).lowerband)):
                        if st == 'volume' and nm not in ('midprice', 'typprice', 'atr', 'donchian_lower'):
                            continue
                        a_, b_ = np.asarray(call(X), dtype=float) * lam, np.asarray(call(Y), dtype=float)
                        J.c('homogeneity_checks')
                        i = indlib.equal_values(b_, a_, rel=1e-7, absl=1e-9, scale=max(1e-300, float(np.nanmax(np.abs(a_))) if np.isfinite(a_).any() else 1.0))
                        if i is not None:
                            J.bad(f'homogeneity:{nm}', f'{nm}(lambda X) != lambda {nm}(X) for lambda={lam} at index {i}: '
                                                       f'{b_[i]!r} vs {a_[i]!r}', index=i, lam=lam)
        except Exception as ex:
            import traceback
            J.bad(f'indicator_raises:{job["group"]}:{type(ex).__name__}', f'{ex!r}', tb=traceback.format_exc()[-900:])
    for x_ in viol:
        x_['witness']['job_seed'] = job['seed']
    return {'viol': viol, 'cnt': cnt, 'sigs': sigs,
            'sample': {'group': job['group'], 'kinds': job['kinds'], 'triples': job['n']} if job.get('want_sample') else None}


def make_jobs(tier, seed):
    rng = random.Random(150000 + seed)
    jobs = []
    kinds = ['walk', 'trend', 'constant', 'monotone', 'alternating', 'huge', 'tiny', 'tiny', 'flat', 'spikes', 'gappy', 'lattice', 'zerovol', 'outside', 'volspike', 'ties', 'quietstart']
    plan = {'window': (96, 24), 'recursive': (32, 6), 'ma': (24, 16), 'homogeneity': (24, 16)} if tier == 'quick' else \
        {'window': (3600, 60), 'recursive': (1440, 12), 'ma': (900, 40), 'homogeneity': (900, 40)}
    for group, (njobs, n) in plan.items():
        for i in range(njobs):
            jobs.append({'group': group, 'seed': rng.randrange(1 << 30), 'n': n, 'kinds': kinds, 'mode': 'bc',
                         'want_sample': i == 0})
    return jobs
