"""C17 - sizing and numeric helpers never overspend, over-risk or round up.

Direct oracle in exact rational arithmetic on generated inputs (log-uniform, decimal grids, values whose scaled quotient
lands within an ulp of an integer), plus an acceptance test through the real Order / exchange objects of a prepared store.
"""
import itertools
import math
import random
from decimal import Decimal
from fractions import Fraction as F

import numpy as np

from .. import direct

PROP = 'C17'
RULE = ('capital 1..1e7, price 1e-6..1e6 (log-uniform, decimal grids, near-integer quotients found with nextafter), fee {0, 1e-4..0.01}, '
        'precision 0..8, risk 0.1..100 %, entry/stop pairs; decimal pairs i/10^k, j/10^k with k <= 8; every timeframe and all subsets '
        'up to size 4. distinct = distinct (function, precision, fee class, magnitude bucket); non-trivial = every case.')
ASSUMPTIONS = ['round_qty_for_live_mode: "never rounds up" is judged beyond 2 ulp of the input (x * 10**p is itself rounded to a float)',
               '"at most one step below" allows 4 ulp of the result on top of the step (the step can be smaller than the float spacing)',
               'cost and risk bounds are judged in exact rationals of the float inputs with a relative slack of 1e-12 (decimal '
               'literals are not binary fractions); the acceptance test through a fresh account is judged without slack',
               '"exact quotient" of size_to_qty = position_size * (1 - 3 fee) / price (the fee cushion the helper documents)']
MIN_OBS = {'size_to_qty_cases': 20000, 'risk_to_qty_cases': 10000, 'acceptance_cases': 1000, 'decimal_cases': 20000,
           'round_qty_cases': 10000, 'limit_stop_loss_cases': 5000, 'timeframe_sets': 1000}
SLACK = F(1, 10 ** 12)


def _pure(job):
    import jesse.utils as ju
    import jesse.helpers as jh
    rng = random.Random(job['seed'])
    viol, cnt, sigs = [], {}, set()

    def bad(key, msg, **w):
        if sum(1 for x in viol if x['key'] == key) < 2:
            viol.append({'key': key, 'msg': msg, 'witness': w})

    def c(k, n=1):
        cnt[k] = cnt.get(k, 0) + n

    def rnum(lo, hi):
        r = rng.random()
        if r < 0.5:
            return math.exp(rng.uniform(math.log(lo), math.log(hi)))
        if r < 0.8:
            return round(math.exp(rng.uniform(math.log(lo), math.log(hi))), rng.choice([0, 1, 2, 4]))  or lo
        return float(rng.choice([1, 10, 100, 1000, 0.1, 0.01, 0.001, 250, 0.5, 3, 7]))

    import decimal
    ctx0 = decimal.getcontext()
    ctx_before = (ctx0.prec, ctx0.rounding, ctx0.Emin, ctx0.Emax, ctx0.capitals, ctx0.clamp)
    arr_ = np.array([100.0, 101.5, 99.25, 102.0, 103.5, 101.0])
    neighbours = [
        lambda: ju.kelly_criterion(rng.choice([0.4, 0.55, 0.6]), rng.choice([1.5, 2, 3.0])),
        lambda: ju.estimate_risk(rnum(1, 1e4), rnum(1, 1e4)),
        lambda: ju.qty_to_size(rnum(1e-3, 1e3), rnum(1e-2, 1e5)),
        lambda: ju.prices_to_returns(arr_.copy()),
        lambda: ju.z_score(arr_.copy()),
        lambda: ju.streaks(arr_.copy()),
        lambda: ju.strictly_increasing(arr_.copy(), 3),
        lambda: ju.crossed(arr_.copy(), 101.0),
        lambda: ju.combinations_without_repeat(np.arange(4)),
        lambda: ju.timeframe_to_one_minutes(rng.choice(['1m', '15m', '4h'])),
    ]
    for it in range(job['n']):
        if it % 40 == 0:
            # the other helpers of the module are in use at the same time (a strategy that sizes with the Kelly fraction ...):
            # none of them may change what the sizing and decimal helpers return afterwards
            try:
                rng.choice(neighbours)()
                c('neighbour_helper_calls')
            except Exception:
                c('neighbour_helper_raised')
        # ---- size_to_qty --------------------------------------------------------------------
        cap = rnum(1, 1e7)
        price = rnum(1e-6, 1e6)
        fee = rng.choice([0, 0, 0.0001, 0.0004, 0.001, 0.01])
        prec = rng.randint(0, 8)
        if rng.random() < 0.3:
            # make cap/price * 10^prec land next to an integer
            k = rng.randint(1, 10 ** rng.randint(1, 6))
            cap = k * price / 10 ** prec
            cap = float(np.nextafter(cap, rng.choice([0, math.inf]))) if rng.random() < 0.6 else cap
            if cap <= 0:
                cap = 1.0
        try:
            q = ju.size_to_qty(cap, price, precision=prec, fee_rate=fee)
        except Exception as ex:
            bad('size_to_qty_raises', repr(ex), cap=cap, price=price, prec=prec, fee=fee)
            continue
        c('size_to_qty_cases')
        sigs.add(('s2q', prec, fee > 0, int(math.log10(max(cap / price, 1e-9)))))
        Q = F(cap) * (1 - 3 * F(fee)) / F(price)
        step = F(1, 10 ** prec)
        if F(q) * F(price) * (1 + F(fee)) > F(cap) * (1 + SLACK):
            bad('size_to_qty_overspends', f'size_to_qty({cap!r}, {price!r}, precision={prec}, fee_rate={fee}) = {q!r}: cost incl. fee '
                                          f'{float(F(q) * F(price) * (1 + F(fee)))} > capital', cap=cap, price=price, prec=prec, fee=fee)
        if F(q) > Q * (1 + SLACK):
            bad('size_to_qty_rounds_up', f'size_to_qty({cap!r}, {price!r}, {prec}, {fee}) = {q!r} > exact quotient {float(Q)}',
                cap=cap, price=price, prec=prec, fee=fee)
        if F(q) <= Q - step * (1 + SLACK) - 4 * F(math.ulp(q)) and Q >= step:
            bad('size_to_qty_more_than_one_step_below', f'size_to_qty({cap!r}, {price!r}, {prec}, {fee}) = {q!r}, exact quotient '
                                                        f'{float(Q)}, step {float(step)}', cap=cap, price=price, prec=prec, fee=fee)
        # ---- risk_to_qty --------------------------------------------------------------------
        risk = rng.choice([0.1, 0.5, 1, 2, 5, 10, 50, 100, rng.uniform(0.1, 100)])
        entry = rnum(1e-3, 1e5)
        stop = entry * (1 + rng.choice([-1, 1]) * rng.choice([0.001, 0.01, 0.05, 0.3, rng.uniform(0.0005, 0.5)]))
        try:
            q = ju.risk_to_qty(cap, risk, entry, stop, precision=prec, fee_rate=fee)
        except Exception as ex:
            bad('risk_to_qty_raises', repr(ex), cap=cap, risk=risk, entry=entry, stop=stop)
            continue
        c('risk_to_qty_cases')
        sigs.add(('r2q', prec, fee > 0, risk >= 10))
        if F(q) * abs(F(entry) - F(stop)) > F(cap) * F(risk) / 100 * (1 + SLACK):
            bad('risk_to_qty_over_risks', f'risk_to_qty({cap!r}, {risk!r}, {entry!r}, {stop!r}, {prec}, {fee}) = {q!r} risks '
                                          f'{float(F(q) * abs(F(entry) - F(stop)))} > {float(F(cap) * F(risk) / 100)}',
                cap=cap, risk=risk, entry=entry, stop=stop, prec=prec, fee=fee)
        if F(q) * F(entry) * (1 + F(fee)) > F(cap) * (1 + SLACK):
            bad('risk_to_qty_overspends', f'risk_to_qty({cap!r}, {risk!r}, {entry!r}, {stop!r}, {prec}, {fee}) = {q!r} costs '
                                          f'{float(F(q) * F(entry) * (1 + F(fee)))} > capital', cap=cap, risk=risk, entry=entry, stop=stop)
        # ---- decimal helpers ----------------------------------------------------------------
        for _ in range(2):
            k = rng.randint(0, 8)
            i, j = rng.randint(0, 10 ** rng.randint(1, 12)), rng.randint(0, 10 ** rng.randint(1, 12))
            a, b = i / 10 ** k, j / 10 ** k
            c('decimal_cases')
            da, db = Decimal(repr(a)), Decimal(repr(b))
            if da != Decimal(i) / Decimal(10 ** k) or db != Decimal(j) / Decimal(10 ** k):
                continue        # the float does not round-trip to the intended decimal (more than 15-17 digits)
            s, d = ju.sum_floats(a, b), ju.subtract_floats(a, b)
            es, ed = float(F(i + j, 10 ** k)), float(F(i - j, 10 ** k))
            if s != es:
                bad('sum_floats_not_exact', f'sum_floats({a!r}, {b!r}) = {s!r}, correctly rounded {es!r}', a=a, b=b)
            if d != ed:
                bad('subtract_floats_not_exact', f'subtract_floats({a!r}, {b!r}) = {d!r}, correctly rounded {ed!r}', a=a, b=b)
        # ---- round_qty_for_live_mode ----------------------------------------------------------
        x = rnum(1e-9, 1e6)
        p = rng.randint(0, 8)
        try:
            r = jh.round_qty_for_live_mode(x, p)
            c('round_qty_cases')
            unit = 1 / 10 ** p
            if x < unit:
                if r != unit:
                    bad('round_qty_min_unit', f'round_qty_for_live_mode({x!r}, {p}) = {r!r}, expected the minimum unit {unit}', x=x, p=p)
            else:
                if r > x + 2 * math.ulp(x):
                    bad('round_qty_rounds_up', f'round_qty_for_live_mode({x!r}, {p}) = {r!r} > input', x=x, p=p)
                if F(r) <= F(x) - F(1, 10 ** p) - 4 * F(math.ulp(x)):
                    bad('round_qty_more_than_one_unit_down', f'round_qty_for_live_mode({x!r}, {p}) = {r!r}', x=x, p=p)
        except Exception as ex:
            bad('round_qty_raises', repr(ex), x=x, p=p)
        # ---- limit_stop_loss -------------------------------------------------------------------
        typ = rng.choice(['long', 'short'])
        e2 = rnum(1e-3, 1e5)
        s2 = e2 * (1 - rng.uniform(0.0001, 0.9)) if typ == 'long' else e2 * (1 + rng.uniform(0.0001, 0.9))
        mx = rng.choice([0.5, 1, 2, 5, 10, 50])
        ls = ju.limit_stop_loss(e2, s2, typ, mx)
        c('limit_stop_loss_cases')
        if abs(ls - e2) > abs(s2 - e2) * (1 + 1e-12) + abs(e2) * 1e-15:
            bad('limit_stop_loss_widens_risk', f'limit_stop_loss({e2!r}, {s2!r}, {typ}, {mx}) = {ls!r} is further from the entry than '
                                               f'the requested stop', e=e2, s=s2)
        if abs(ls - e2) > e2 * mx / 100 * (1 + 1e-12) + abs(e2) * 1e-15:
            bad('limit_stop_loss_exceeds_max_risk', f'limit_stop_loss({e2!r}, {s2!r}, {typ}, {mx}) = {ls!r}', e=e2, s=s2)
        if (typ == 'long') != (ls <= e2) and ls != e2:
            bad('limit_stop_loss_wrong_side', f'limit_stop_loss({e2!r}, {s2!r}, {typ}, {mx}) = {ls!r}', e=e2, s=s2)
    ctx1 = decimal.getcontext()
    ctx_after = (ctx1.prec, ctx1.rounding, ctx1.Emin, ctx1.Emax, ctx1.capitals, ctx1.clamp)
    c('decimal_context_checks')
    if ctx_after != ctx_before:
        bad('decimal_context_changed', f'the process-wide decimal context changed from {ctx_before} to {ctx_after} while the helpers '
            f'ran: every later decimal addition / subtraction in this process is rounded differently')
    return {'viol': viol, 'cnt': cnt, 'sigs': [repr(s) for s in sigs]}


def _timeframes(job):
    import jesse.utils as ju
    import jesse.helpers as jh
    import jesse.modes.backtest_mode as bm
    from jesse.enums import timeframes
    viol, cnt = [], {}
    names = [getattr(timeframes, x) for x in dir(timeframes) if not x.startswith('_')]

    def minutes(tf):
        return int(tf[:-1]) * {'m': 1, 'h': 60, 'D': 1440, 'W': 10080, 'M': 43200}[tf[-1]]

    for tf in names:
        a, b, c3 = ju.timeframe_to_one_minutes(tf), bm.timeframe_to_one_minutes.get(tf), jh.timeframe_to_one_minutes(tf)
        if not (a == b == c3 == minutes(tf)):
            viol.append({'key': 'timeframe_table_mismatch', 'msg': f'{tf}: utils {a} backtest_mode {b} helpers {c3} parsed '
                                                                   f'{minutes(tf)}', 'witness': {'tf': tf}})
        try:
            an = ju.anchor_timeframe(tf)
            cnt['anchor_cases'] = cnt.get('anchor_cases', 0) + 1
            if minutes(an) <= minutes(tf):
                viol.append({'key': 'anchor_timeframe_not_longer', 'msg': f'anchor_timeframe({tf}) = {an}', 'witness': {}})
        except KeyError:
            cnt['anchor_undefined'] = cnt.get('anchor_undefined', 0) + 1
    rng = random.Random(job['seed'])
    sets = []
    for k in (1, 2, 3, 4):
        combos = list(itertools.combinations(names, k))
        sets += combos if len(combos) <= 800 else rng.sample(combos, 800)
    for s in sets:
        cnt['timeframe_sets'] = cnt.get('timeframe_sets', 0) + 1
        lst = list(s)
        rng.shuffle(lst)
        got = jh.max_timeframe(lst)
        exp = max(lst, key=minutes)
        if got != exp:
            big = [t for t in lst if t in ('3D', '1W', '1M')]
            key = 'max_timeframe_ignores_3D_1W_1M' if big and exp in big else 'max_timeframe_wrong'
            if sum(1 for x in viol if x['key'] == key) < 2:
                viol.append({'key': key, 'msg': f'max_timeframe({lst}) = {got}, longest is {exp}', 'witness': {'set': lst}})
    return {'viol': viol, 'cnt': cnt, 'sigs': ['timeframes']}


def _acceptance(job):
    import jesse.utils as ju
    from jesse.exceptions import InsufficientBalance, InsufficientMargin
    rng = random.Random(job['seed'])
    viol, cnt, sigs = [], {}, []
    for it in range(job['n']):
        spot = rng.random() < 0.5
        cap = round(math.exp(rng.uniform(math.log(10), math.log(1e6))), rng.choice([0, 1, 2]))
        price = round(math.exp(rng.uniform(math.log(1e-3), math.log(1e5))), rng.choice([2, 3, 4, 6])) or 0.001
        fee = rng.choice([0, 0, 0.0004, 0.001])
        prec = rng.randint(0, 8)
        if it % 4 == 0:
            # exactly divisible, fee 0: the quantity costs exactly the capital (the account ends with a balance of exactly 0)
            price = rng.choice([100.0, 0.25, 12.5, 7.0, 2.0, 0.5, 1250.0])
            prec = rng.choice([0, 1, 2, 3, 8])
            k = rng.randint(1, 5000)
            cap = float(F(price) * k / 10 ** min(prec, 3))
            fee = 0
            if F(cap) != F(price) * k / 10 ** min(prec, 3):
                continue
            cnt['exactly_divisible_cases'] = cnt.get('exactly_divisible_cases', 0) + 1
        q = ju.size_to_qty(cap, price, precision=prec, fee_rate=fee)
        if q <= 0:
            continue
        cfg = {'starting_balance': cap, 'fee': fee, 'type': 'spot' if spot else 'futures'}
        if not spot:
            cfg.update(futures_leverage=1, futures_leverage_mode='cross')
        w = direct.World(cfg, ['BTC-USDT'], prices={'BTC-USDT': price})
        cnt['acceptance_cases'] = cnt.get('acceptance_cases', 0) + 1
        cnt['acceptance_fee0' if fee == 0 else 'acceptance_fee_pos'] = cnt.get('acceptance_fee0' if fee == 0 else 'acceptance_fee_pos', 0) + 1
        try:
            w.submit('BTC-USDT', 'buy', 'LIMIT', q, price, False)
        except (InsufficientBalance, InsufficientMargin) as ex:
            exact = F(q) * F(price)
            key = 'sized_order_rejected_by_fresh_account'
            if fee == 0 and exact <= F(cap) * (1 + SLACK) and q * price > cap:
                # (only when the FLOAT product really is above the capital; a rejection although q * price <= capital in
                # floats as well is a different defect)
                key = 'fee0_product_rounds_above_capital'
            viol.append({'key': key, 'msg': f'size_to_qty({cap!r}, {price!r}, precision={prec}, fee_rate={fee}) = {q!r}; an order for it '
                                            f'at that price is rejected by a fresh {"spot" if spot else "1x futures"} account holding '
                                            f'{cap!r}: {type(ex).__name__} (float product {q * price!r})',
                         'witness': {'cap': cap, 'price': price, 'prec': prec, 'fee': fee, 'spot': spot}})
        finally:
            w.close()
        sigs.append(repr((spot, fee > 0, prec)))
    seen, vv = {}, []
    for x in viol:
        seen[x['key']] = seen.get(x['key'], 0) + 1
        if seen[x['key']] <= 2:
            vv.append(x)
    return {'viol': vv, 'cnt': cnt, 'sigs': sigs}


def run_job(job):
    return {'pure': _pure, 'tf': _timeframes, 'acc': _acceptance}[job['kind']](job)


def make_jobs(tier, seed):
    rng = random.Random(170000 + seed)
    jobs = []
    for i in range(64 if tier == 'quick' else 10000):
        jobs.append({'kind': 'pure', 'seed': rng.randrange(1 << 30), 'n': 3000})
    jobs.append({'kind': 'tf', 'seed': rng.randrange(1 << 30)})
    for i in range(16 if tier == 'quick' else 4000):
        jobs.append({'kind': 'acc', 'seed': rng.randrange(1 << 30), 'n': 120})
    return jobs
