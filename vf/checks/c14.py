"""C14 - sequential and single-value indicator results agree.

Differential monitor on the real indicator functions: for every field the sequential result has one entry per candle,
its last entry equals the non-sequential result (inputs up to the warm-up window), and for longer inputs the
non-sequential result equals the sequential result on the trailing warm-up window.
"""
import random

import numpy as np

from .. import indlib
from .c13 import _names, job_env  # same worker modes (bounds-checked numba by default)

CRASH_IS_VIOLATION = True     # a worker dying from a signal while it runs indicator code is a finding, not noise
PROP = 'C14'
RULE = ('every public indicator with a `sequential` argument x (default + non-default parameter sets, every source type) x input '
        'lengths {60, 239, 240, 241, 400, 1000}; every call gets a private copy of the pristine series, which must come back '
        'unmodified; distinct = distinct (indicator, parameter set, length); non-trivial = the '
        'sequential call returned.')
ASSUMPTIONS = ['warm-up window = get_config("env.data.warmup_candles_num") read in a fresh worker (240)',
               'comparison NaN-aware; last value vs non-sequential on the same input: relative 1e-12; trailing-window comparison: relative 1e-9 '
               '(indicators that do not slice their input accumulate rolling sums over a longer array)',
               'the extrema detector (minmax): non-sequential flags are those of entry order+1 from the end (documented)']
MIN_OBS = {'indicators_checked': 150, 'length_checks': 3000, 'last_value_checks': 2000, 'window_checks': 800}
SHARD_TIMEOUT = 2400
JOB_TIMEOUT = 900
LENGTHS = [60, 239, 240, 241, 400, 1000]


def run_job(job):
    import jesse.helpers as jh
    rng = random.Random(job['seed'])
    table = {n: (f, sig) for n, f, sig in indlib.indicators()}
    W = jh.get_config('env.data.warmup_candles_num', 240)
    viol, cnt, sigs = [], {}, []
    if W != 240:
        viol.append({'key': 'warmup_window_not_240', 'msg': f'warm-up window is {W}', 'witness': {}})
    sample = None
    for name in job['names']:
        if name not in table:
            continue
        f, sig = table[name]
        if 'sequential' not in sig.parameters:
            # single-value-only indicators: nothing to compare, but their compiled loops run under the bounds checker on every
            # input length like everybody else's
            for n in (1, 2, 3, 6, 9, 25, 60):
                X = indlib.series('walk', max(n, 6), rng.randrange(1 << 30))[:n]
                X2 = indlib.series('walk', max(n, 6), rng.randrange(1 << 30))[:n]
                try:
                    indlib.call(name, f, sig, X.copy(), {}, False, X2.copy())
                    cnt['single_only_calls'] = cnt.get('single_only_calls', 0) + 1
                except Exception as ex:
                    cnt['single_only_calls'] = cnt.get('single_only_calls', 0) + 1
                    if type(ex).__name__ == 'IndexError' and str(ex) == 'index is out of bounds':
                        viol.append({'key': f'kernel_index_out_of_bounds:{name}',
                                     'msg': f'{name}() on {n} candles: a compiled loop indexes outside its arrays',
                                     'witness': {'indicator': name, 'n': n}})
                        break
            continue
        psets = indlib.param_sets(name, sig, rng, job['nparams'], small=True)
        # a period of 1 is degenerate for many definitions (regression over one point ...): not judged here
        psets = [kw for kw in psets if 1 not in [v for v in kw.values() if isinstance(v, int) and not isinstance(v, bool)]]
        seen = set()
        checked = False

        def bad(key, msg, **w):
            if key not in seen:
                seen.add(key)
                w.update(indicator=name)
                viol.append({'key': key, 'msg': msg, 'witness': w})

        # many indicators also accept a plain series (a strategy's own numbers): it must come back untouched as well
        x1 = np.ascontiguousarray(indlib.series('walk', 120, rng.randrange(1 << 30))[:, 2], dtype=np.float64)
        for seq_ in (True, False):
            xa = x1.copy()
            try:
                f(xa, sequential=seq_)
            except Exception:
                cnt['series_input_raises'] = cnt.get('series_input_raises', 0) + 1
                continue
            cnt['series_input_calls'] = cnt.get('series_input_calls', 0) + 1
            if not np.array_equal(xa, x1, equal_nan=True):
                bad(f'input_modified:{name}', f'{name}(series, sequential={seq_}) wrote into the series it was given '
                    f'({int((xa != x1).sum())} cells differ)', n=120)

        # windows exactly as long as the input that is available: period = n for a short input, period = W for a long one
        # (the single-value call only sees the trailing W candles)
        pk = [k_ for k_ in indlib.period_keys(sig) if k_ != 'order']     # (minmax: `order` is not a window length)
        full_window = [({k_: min(n_, W) for k_ in pk}, n_) for n_ in (60, W, 400)] if pk and job['nparams'] > 0 else []
        cases = [(pi, kw, n) for pi, kw in enumerate(psets) for n in job['lengths']] + \
                [(1000 + j, kw, n_) for j, (kw, n_) in enumerate(full_window)]
        for pi, kw, n in cases:
            for _once in (0,):
                X = indlib.series(rng.choice(job['kinds']), n, rng.randrange(1 << 30))
                X2 = indlib.series('walk', n, rng.randrange(1 << 30))
                # every call gets private copies of the pristine series; the copies are compared afterwards (an indicator that
                # writes into its input would otherwise feed its own output to the next call - or to the caller's strategy)
                Xa, X2a = X.copy(), X2.copy()
                try:
                    seq = indlib.fields(indlib.call(name, f, sig, Xa, kw, True, X2a))
                    seq = {k_: (np.array(v_, copy=True) if isinstance(v_, np.ndarray) else v_) for k_, v_ in seq.items()}
                except Exception as ex:
                    cnt['sequential_raises'] = cnt.get('sequential_raises', 0) + 1
                    if type(ex).__name__ == 'IndexError' and str(ex) == 'index is out of bounds':
                        # numba's bounds checker (these workers run with NUMBA_BOUNDSCHECK=1): in production the compiled loop
                        # would read or write outside its arrays on this input
                        bad(f'kernel_index_out_of_bounds:{name}', f'{name}({kw}, sequential=True) on {n} candles: a compiled loop '
                            f'indexes outside its arrays', params=kw, n=n)
                    continue
                checked = True
                sigs.append(repr((name, pi, n)))
                cnt['input_unmodified_checks'] = cnt.get('input_unmodified_checks', 0) + 1
                if not (np.array_equal(Xa, X, equal_nan=True) and np.array_equal(X2a, X2, equal_nan=True)):
                    bad(f'input_modified:{name}', f'{name}({kw}, sequential=True) wrote into the candle array it was given '
                        f'({int((Xa != X).sum())} cells differ)', params=kw, n=n)
                Xb, X2b = X.copy(), X2.copy()
                try:
                    single = indlib.fields(indlib.call(name, f, sig, Xb, kw, False, X2b))
                except Exception as ex:
                    if n > W:
                        # the single-value call only sees the trailing W candles: it may raise exactly when the sequential call
                        # on those W candles raises too (a window longer than the available input)
                        try:
                            indlib.call(name, f, sig, X[-W:].copy(), kw, True, X2[-W:].copy())
                        except Exception:
                            cnt['single_and_trailing_window_both_raise'] = cnt.get('single_and_trailing_window_both_raise', 0) + 1
                            continue
                    if name == 'minmax' and n <= kw.get('order', 3) + 1:
                        # documented: the single value is the entry `order`+1 from the end - there is none on such a short input
                        cnt['minmax_short_input_skipped'] = cnt.get('minmax_short_input_skipped', 0) + 1
                        continue
                    bad(f'single_raises:{name}', f'{name}({kw}) sequential works on {n} candles, non-sequential raises {ex!r}',
                        params=kw, n=n)
                    continue
                if not (np.array_equal(Xb, X, equal_nan=True) and np.array_equal(X2b, X2, equal_nan=True)):
                    bad(f'input_modified:{name}', f'{name}({kw}, sequential=False) wrote into the candle array it was given',
                        params=kw, n=n)
                if n > W:
                    try:
                        tail = indlib.fields(indlib.call(name, f, sig, X[-W:].copy(), kw, True, X2[-W:].copy()))
                    except Exception:
                        tail = None
                for fld, v in seq.items():
                    a = indlib.as_array(v)
                    if a is None or a.ndim == 0:
                        bad(f'sequential_not_a_series:{name}:{fld}', f'{name} sequential field {fld} is {type(v).__name__}')
                        continue
                    cnt['length_checks'] = cnt.get('length_checks', 0) + 1
                    if len(a) != n:
                        bad(f'length:{name}:{fld}', f'{name}({kw}) sequential field {fld} has {len(a)} entries for {n} candles',
                            params=kw, n=n)
                    s = single.get(fld)
                    if s is None and fld not in single:
                        continue
                    # reference for the non-sequential value
                    if name == 'minmax' and fld in ('is_min', 'is_max'):
                        order = kw.get('order', 3)
                        src = a if n <= W else indlib.as_array(tail.get(fld)) if tail else None
                        ref = None if src is None or len(src) < order + 1 else src[-(order + 1)]
                    elif n <= W:
                        ref = a[-1] if len(a) else None
                        cnt['last_value_checks'] = cnt.get('last_value_checks', 0) + 1
                    else:
                        if tail is None:
                            continue
                        t = indlib.as_array(tail.get(fld))
                        ref = t[-1] if t is not None and t.ndim and len(t) else None
                        cnt['window_checks'] = cnt.get('window_checks', 0) + 1
                    if ref is None:
                        continue
                    if s is None:
                        # documented None for NaN (lrsi) is accepted
                        if isinstance(ref, float) and ref != ref:
                            continue
                    i = indlib.equal_values(np.array([s], dtype=object), np.array([ref], dtype=object),
                                            rel=1e-10 if n <= W else 1e-9, absl=1e-13 if n <= W else 1e-12,
                                            scale=indlib.scale_of(X, a))
                    if i is not None:
                        kind = 'last_value' if n <= W else 'warmup_window'
                        bad(f'{kind}:{name}:{fld}',
                            f'{name}({kw}) on {n} candles: non-sequential {fld} = {s!r}, '
                            f'{"last sequential value" if n <= W else f"last sequential value on the trailing {W} candles"} = {ref!r}',
                            params=kw, n=n)
        if checked:
            cnt['indicators_checked'] = cnt.get('indicators_checked', 0) + 1
        if sample is None and job.get('want_sample'):
            sample = {'indicator': name, 'parameter_sets': psets[:3], 'lengths': job['lengths']}
    return {'viol': viol, 'cnt': cnt, 'sigs': sigs, 'sample': sample}


def make_jobs(tier, seed):
    rng = random.Random(140000 + seed)
    names = _names()
    jobs = []
    chunk = 4
    for i in range(0, len(names), chunk):
        jobs.append({'names': names[i:i + chunk], 'seed': rng.randrange(1 << 30), 'mode': 'bc',
                     'nparams': 4 if tier == 'quick' else 30, 'lengths': LENGTHS if tier == 'thorough' else [6, 9, 25, 60, 239, 240, 241, 400],
                     'kinds': ['walk', 'lattice', 'gappy', 'alternating', 'zerovol', 'flattail', 'flattail'], 'want_sample': i == 0})
    if tier == 'thorough':
        for rep in range(6):
            for i in range(0, len(names), chunk):
                jobs.append({'names': names[i:i + chunk], 'seed': rng.randrange(1 << 30), 'mode': 'bc', 'nparams': 40, 'lengths': LENGTHS,
                             'kinds': ['walk', 'lattice', 'gappy', 'alternating', 'trend', 'spikes', 'flat', 'zerovol', 'tiny', 'flattail', 'outside', 'ties', 'quietstart']})
        for i in range(0, len(names), chunk):
            jobs.append({'names': names[i:i + chunk], 'seed': rng.randrange(1 << 30), 'mode': 'jit', 'nparams': 3,
                         'lengths': LENGTHS, 'kinds': ['walk', 'flat', 'alternating']})
    return jobs
