"""C06 - position events and the trade log are a faithful record of the fills.

Offline trace checker: the fills of a session (first-time executions, per symbol) drive a reference cycle tracker
(open / increase / reduce / close / flip, quantities added as decimals). For every fill the strategy hook that ran
between the execute call and its return must be the one the effect implies, exactly once, with the implied position
size; every completed cycle must produce exactly one closed trade whose side, quantity, weighted entry/exit, times and
order list are those of the cycle's fills; in futures the sum of the closed trades' net PnL must equal the wallet change.
"""
import random
from decimal import Decimal
from fractions import Fraction as F

from .. import direct, models, session, specgen
from ..scripted import make_strategy
from ..tracer import TR

PROP = 'C06'
RULE = ('(a) random scripted sessions (multi-point entries, partial take-profits, stop moved after reductions, liquidate(), '
        'position open at session end, spot and futures, both simulators); (b) direct-drive histories with the real scripted '
        'strategy attached producing flips and oversize reduce-only closes. distinct = distinct sequence of effects; '
        'non-trivial = >= 1 completed cycle.')
ASSUMPTIONS = ['hooks are observed through the scripted strategy (every on_* hook logs the order it was called for)',
               'trade values compared with relative tolerance 1e-9']
MIN_OBS = {'fills_judged': 3000, 'cycles_completed': 300, 'cycles_ge3_fills': 100, 'cycles_forced_close': 30,
           'flips': 50, 'oversize_closes': 50, 'wallet_identity_checks': 100}
HOOK_FOR = {'open': 'on_open_position', 'increase': 'on_increased_position', 'reduce': 'on_reduced_position',
            'close': 'on_close_position', 'oversize_close': 'on_close_position'}


def check_trace(events, cfg, aborted):
    viol, cnt = [], {}
    spot = cfg['type'] == 'spot'
    fee = cfg['fee']

    def c(k, n=1):
        cnt[k] = cnt.get(k, 0) + n

    def v(key, msg, **w):
        viol.append({'key': key, 'msg': msg, 'witness': w})

    qty, cycle, subs = {}, {}, {}
    calls = {}
    hooks_in_flight = {}     # order ordinal -> list of hook events between its exec_call and exec_ret
    open_calls = []
    first_bal = None
    last_bal = None
    trades_pnl = F(0)
    completed = []
    pending_trades = {}      # symbol -> list of trade_closed events not yet matched to a cycle
    for e in events:
        k = e['k']
        if k == 'hook' and first_bal is None and 'bal' in e:
            first_bal = e['bal']
        if k == 'hook' and 'bal' in e:
            last_bal = e['bal']
        if k == 'submit':
            subs[e['o']] = e
        elif k == 'exec_call':
            calls[e['o']] = e
            if e['status'] == 'ACTIVE':
                open_calls.append(e['o'])
                hooks_in_flight[e['o']] = []
        elif k == 'hook' and e['hook'].startswith('on_') and e['hook'] != 'on_cancel':
            if 'o' in e and e['o'] in hooks_in_flight:
                hooks_in_flight[e['o']].append(e)
            elif open_calls:
                hooks_in_flight[open_calls[-1]].append(e)
        elif k == 'trade_closed':
            pending_trades.setdefault(e['symbol'], []).append(e)
        elif k == 'exec_ret':
            call = calls.get(e['o'])
            if not call or call['status'] != 'ACTIVE' or e['status'] != 'EXECUTED':
                continue
            if e['o'] in open_calls:
                open_calls.remove(e['o'])
            sym = e['symbol']
            cur = qty.get(sym, Decimal(0))
            q = models.D(e['qty'])
            ro = e['reduce_only']
            if spot and q > 0:
                q_eff = models.D(float(e['qty']) * (1 - fee))
            else:
                q_eff = q
            # ---- effect ----
            if cur == 0:
                eff, new = ['open'], q_eff
            elif models.D(float(cur + q_eff)) == 0 or (spot and q < 0 and -q >= cur):
                eff, new = ['close'] if -q == cur or not spot or models.D(float(cur + q)) == 0 else ['oversize_close'], Decimal(0)
                if not spot and models.D(float(cur + q)) != 0:
                    eff = ['oversize_close']
            elif (cur > 0) == (q > 0):
                if ro:
                    eff, new = ['ignored'], cur
                else:
                    eff, new = ['increase'], models.D(float(cur + q_eff))
            elif abs(q) > abs(cur):
                if ro:
                    eff, new = ['oversize_close'], Decimal(0)
                else:
                    eff, new = ['close', 'open'], models.D(float(cur + q))
            else:
                eff, new = ['reduce'], models.D(float(cur + q))
            qty[sym] = new
            c('fills_judged')
            for x in eff:
                c('eff:' + x)
            if eff == ['close', 'open']:
                c('flips')
            if eff == ['oversize_close']:
                c('oversize_closes')
            # ---- hooks ----
            hs = [h for h in hooks_in_flight.pop(e['o'], []) if h.get('o', e['o']) == e['o']]
            names = [h['hook'] for h in hs]
            if eff != ['ignored']:
                expected = [HOOK_FOR[x] if x != 'open' or True else None for x in eff]
                expected = ['on_close_position' if x in ('close', 'oversize_close') else HOOK_FOR[x] for x in eff]
                if names != expected:
                    key = 'hooks_differ_from_effect'
                    if eff == ['close', 'open']:
                        key = 'flip_without_close_hook' if 'on_close_position' not in names else 'flip_hooks_differ'
                    v(key, f'fill {e["side"]} {e["qty"]}@{e["price"]} on position {cur} implies {eff} -> hooks {expected}, '
                           f'observed {names}', fill={kk: e[kk] for kk in ('o', 'side', 'type', 'qty', 'price', 'reduce_only', 't')},
                      position_before=str(cur))
                else:
                    h = hs[-1]
                    got = h['pos'][0]
                    if not models.close_enough(got, new):
                        v('hook_position_size_differs', f'{names[-1]} saw position {got}, the fill implies {new}',
                          fill={kk: e[kk] for kk in ('o', 'side', 'qty', 'price', 't')})
            # ---- cycle / trade bookkeeping ----
            cy = cycle.get(sym)
            fq = abs(float(e['qty']))
            if eff == ['oversize_close']:
                fq = abs(float(cur))      # a reduce-only order larger than the position is filled for the position size only
            fill = {'o': e['o'], 'side': e['side'], 'qty': fq, 'price': e['price'], 't': e['t'],
                    'ro': ro, 'market': e['type'] == 'MARKET', 'in_liq': e.get('in_liq', 0), 'eff': eff}
            if eff[0] == 'open':
                cycle[sym] = {'side': 'long' if q > 0 else 'short', 'fills': [fill], 'weird': []}
            elif cy is not None:
                cy['fills'].append(fill)
                if eff in (['close'], ['oversize_close'], ['close', 'open']):
                    if eff != ['close']:
                        cy['weird'].append(eff)
                    completed.append(cy)
                    _judge_cycle(cy, sym, pending_trades, v, c, spot, cfg.get('fee'))
                    cycle[sym] = None
                    if eff == ['close', 'open']:
                        cycle[sym] = {'side': 'long' if q > 0 else 'short', 'fills': [], 'weird': ['opened_by_flip'],
                                      'flip_open': {'qty': abs(float(new)), 'price': e['price'], 't': e['t']}}
    # trades that no completed cycle accounts for
    for sym, lst in pending_trades.items():
        for t in lst:
            v('closed_trade_without_completed_cycle', f'a closed trade was recorded for {sym} but no cycle completed: {t}')
    # ---- wallet identity (futures, session completed, nothing open) ----
    if not spot and not aborted and first_bal is not None and last_bal is not None and all(x is None for x in cycle.values()):
        tp = [t for t in events if t['k'] == 'trade_closed']
        if tp and all(isinstance(t['pnl'], float) for t in tp):
            s = sum(t['pnl'] for t in tp)
            start = cfg['starting_balance']
            c('wallet_identity_checks')
            weird = any(cy['weird'] for cy in completed)
            if abs((last_bal - start) - s) > 1e-7 * max(1.0, abs(start)):
                key = 'trade_pnl_sum_differs_from_wallet_change'
                if weird:
                    kinds = {repr(w) for cy in completed for w in cy['weird']}
                    key += ':oversize_reduce_only_close' if any('oversize' in x for x in kinds) else ':flip'
                v(key, f'sum of closed-trade PnL {s} but the wallet moved from {start} to {last_bal} ({last_bal - start})',
                  trades=[{kk: t[kk] for kk in ('type', 'qty', 'entry', 'exit', 'pnl')} for t in tp][:6])
    return viol, cnt


def _judge_cycle(cy, sym, pending, v, c, spot, fee_rate=None):
    c('cycles_completed')
    fills = cy['fills']
    if len(fills) >= 3:
        c('cycles_ge3_fills')
    trades = pending.get(sym, [])
    kind = 'plain'
    if any('oversize' in repr(w) for w in cy['weird']):
        kind = 'oversize_reduce_only_close'
    if any('opened_by_flip' in repr(w) for w in cy['weird']):
        kind = 'opened_by_flip'
    elif any(w == ['close', 'open'] for w in cy['weird']):
        kind = 'closed_by_flip'
    if len(trades) != 1:
        v('cycle_without_exactly_one_trade' + ('' if kind == 'plain' else ':' + kind),
          f'{sym}: a completed {cy["side"]} cycle of {len(fills)} fills produced {len(trades)} closed trades', fills=fills[:8])
        pending[sym] = []
        return
    t = trades.pop(0)
    entry_side = 'buy' if cy['side'] == 'long' else 'sell'
    ent = [f for f in fills if f['side'] == entry_side]
    ext = [f for f in fills if f['side'] != entry_side]
    if 'flip_open' in cy:
        ent = [{'qty': cy['flip_open']['qty'], 'price': cy['flip_open']['price'], 't': cy['flip_open']['t'], 'o': None}] + ent
    suffix = '' if kind == 'plain' else ':' + kind
    if not ent or not ext:
        v('cycle_malformed' + suffix, f'cycle has {len(ent)} entry fills and {len(ext)} exit fills', fills=fills[:8])
        return
    q = sum(f['qty'] for f in ent)
    exp = {'type': cy['side'], 'qty': q, 'entry': sum(f['qty'] * f['price'] for f in ent) / q,
           'exit': sum(f['qty'] * f['price'] for f in ext) / sum(f['qty'] for f in ext),
           'opened_at': ent[0]['t'], 'closed_at': fills[-1]['t']}
    if fills[-1].get('in_liq') is not None and fills and fills[-1]['market'] and fills[-1]['ro'] and False:
        pass
    for kk in ('type', 'qty', 'entry', 'exit', 'opened_at', 'closed_at'):
        a, b = t.get(kk), exp[kk]
        ok = (a == b) if isinstance(b, str) else (isinstance(a, (int, float)) and models.close_enough(a, b))
        if not ok:
            v(f'trade_{kk}_differs_from_fills' + suffix,
              f'{sym} {cy["side"]} trade reports {kk}={a}, the fills of its cycle give {b}', trade=t, fills=fills[:10])
            return
    if 'flip_open' not in cy and t['orders'] != [f['o'] for f in fills]:
        v('trade_order_list_differs_from_fills' + suffix,
          f'trade lists orders {t["orders"]}, the cycle fills are {[f["o"] for f in fills]}', fills=fills[:10])
    if fee_rate is not None and not spot and kind == 'plain' and isinstance(t.get('fee'), (int, float)):
        # futures: the trade's fee is the fee rate on the notional of every fill of its cycle (spot charges the buy fee in base)
        expf = fee_rate * (sum(f['qty'] * f['price'] for f in ent) + sum(f['qty'] * f['price'] for f in ext))
        c('trade_fee_checks')
        if abs(t['fee'] - expf) > 1e-9 * max(1.0, abs(expf)):
            v('trade_fee_differs_from_fills', f'{sym} trade reports fee {t["fee"]}, its fills were charged {expf}', trade=t, fills=fills[:10])
    c('trades_judged')


# ------------------------------------------------------------------------------------------------
def _session(job):
    rng = random.Random(job['seed'])
    forced = job['i'] % 4 == 0
    spec = specgen.random_session(rng, minutes=rng.choice([400, 700, 1000]))
    for r in spec['routes']:
        sc = r['script']
        sc['observe'] = 'light'
        sc['entry'] = rng.choice(['ladder', 'mixed', 'market', 'limit'])
        sc['tp_points'] = rng.choice([1, 2, 3])
        sc['on_reduced'] = rng.choice([None, 'be', 'tp_rest'])
        sc['p_update'] = rng.choice([0.05, 0.2])
        sc['sl_oversize'] = rng.random() < 0.15
        if rng.random() < 0.5:
            # repeated MARKET reductions / market scale-ins from update_position
            sc['update_kinds'] = list(sc['update_kinds']) + ['reduce_market', 'reduce_market'] + (['add_market'] if rng.random() < 0.4 else [])
        if forced:
            # wide exits: a position is usually still open when the session ends (forced close in _terminate)
            sc['sl'], sc['tp'] = 0.2, 0.2
            sc['update_kinds'] = ['trail_sl'] if False else ['tp_ladder']
            sc['p_update'] = 0.0
            sc['p_enter'] = 0.4
    out = session.run_session(spec, snapshots=True)
    viol, cnt = check_trace(out['events'], spec['config'], out['error'] is not None)
    cnt['sessions'] = 1
    if out['error']:
        cnt['sessions_aborted:' + out['error']['type']] = 1
    # forced close at session end
    term = [e for e in out['events'] if e['k'] == 'hook' and e['hook'] == 'before_terminate']
    if term:
        last_t = term[0]['seq']
        if any(e['k'] == 'trade_closed' and e['seq'] > last_t for e in out['events']):
            cnt['cycles_forced_close'] = 1
    # reported net profit vs finishing balance
    m = (out['result'] or {}).get('metrics') or {}
    if spec['config']['type'] == 'futures' and m.get('total') and 'net_profit' in m and 'finishing_balance' in m:
        cnt['metrics_identity_checks'] = 1
        d = (m['finishing_balance'] - m['starting_balance']) - m['net_profit']
        if abs(d) > 1e-7 * max(1.0, abs(m['starting_balance'])):
            weird = [x['key'] for x in viol]
            key = 'net_profit_differs_from_balance_change'
            if any('oversize' in k for k in weird) or cnt.get('oversize_closes'):
                key += ':oversize_reduce_only_close'
            elif cnt.get('flips'):
                key += ':flip'
            viol.append({'key': key, 'msg': f"metrics net_profit {m['net_profit']} but finishing - starting balance = "
                                            f"{m['finishing_balance'] - m['starting_balance']}", 'witness': {}})
    for x in viol:
        x['witness']['spec'] = spec
    effs = tuple(tuple(f['eff']) for f in [])  # placeholder
    sig = repr(tuple((e['type'], e['side'], e['reduce_only']) for e in out['events'] if e['k'] == 'exec_ret')[:40])
    res = {'viol': _dedup(viol), 'cnt': cnt, 'sigs': [sig] if cnt.get('cycles_completed') else []}
    if job['i'] < 2:
        res['sample'] = {'kind': 'session', 'type': spec['config']['type'], 'fast': spec['fast'],
                         'cycles': cnt.get('cycles_completed', 0), 'fills': cnt.get('fills_judged', 0)}
    return res


def _dedup(viol):
    seen, out = set(), []
    for x in viol:
        if x['key'] not in seen:
            seen.add(x['key'])
            out.append(x)
    return out


def _history(job):
    """direct-drive with the real scripted strategy attached: flips and oversize reduce-only closes"""
    rng = random.Random(job['seed'])
    cfg = {'starting_balance': 100000, 'fee': rng.choice([0, 0.001]), 'type': 'futures',
           'futures_leverage': rng.choice([1, 5]), 'futures_leverage_mode': 'cross'}
    if job['pattern'] == 'wipeout':
        # a leveraged cross-margin account (no forced liquidation there) whose losses exceed the whole wallet
        cfg = {'starting_balance': 1000, 'fee': rng.choice([0, 0.0005]), 'type': 'futures', 'futures_leverage': 10,
               'futures_leverage_mode': 'cross'}
    script = {'seed': 1, 'p_enter': 0.0, 'sides': 'both', 'observe': 'light', 'exits_in': 'none'}
    sym = 'BTC-USDT'
    TR.begin(keep_events=True, snapshots=True)
    w = direct.World(cfg, [sym], strategy_cls=make_strategy(script))
    st = w.pos[sym].strategy
    hist = []
    try:
        # emit a first 'hook' so that the starting balance is known
        st._observe('before')
        if job['pattern'] == 'wipeout':
            side = rng.choice(['buy', 'sell'])
            opp = 'sell' if side == 'buy' else 'buy'
            sg = 1 if side == 'buy' else -1
            q, p = float(rng.choice([80, 90, 95])), 100.0
            o = w.submit(sym, side, 'MARKET', q, p, False)
            w.execute(o)
            hist.append(('open', side, q, p))
            o = w.submit(sym, opp, 'STOP', round(q / 3, 2), p * (1 - sg * 0.06), True)
            w.execute(o)
            rest = abs(w.pos[sym].qty)
            o = w.submit(sym, opp, 'MARKET', rest, p * (1 - sg * rng.choice([0.15, 0.2])), True)
            w.execute(o)
            hist.append(('wipeout_exits',))
            w.tick()
        for cyc in range(rng.randint(1, 4) if job['pattern'] != 'wipeout' else 0):
            side = rng.choice(['buy', 'sell'])
            opp = 'sell' if side == 'buy' else 'buy'
            q = round(rng.uniform(0.5, 3), 2)
            p = round(rng.uniform(90, 110), 1)
            o = w.submit(sym, side, 'MARKET', q, p, False)
            w.execute(o)
            hist.append(('open', side, q, p))
            kind = job['pattern'] if cyc == 0 else rng.choice(['plain', 'oversize', 'flip', 'increase', 'twin'])
            if kind == 'twin':
                # scale in with the same size at the same price, take half off twice at one price, close the rest
                o = w.submit(sym, side, 'MARKET', q, p, False)
                w.execute(o)
                hist.append(('twin_increase', side, q, p))
                for _ in range(2):
                    o = w.submit(sym, opp, 'LIMIT', round(q / 2, 3), p + 5, True)
                    w.execute(o)
                hist.append(('twin_exits', opp, round(q / 2, 3), p + 5))
                rest = abs(w.pos[sym].qty)
                if rest:
                    o = w.submit(sym, opp, 'STOP', rest, p - 3, True)
                    w.execute(o)
                w.tick()
                continue
            if kind == 'increase':
                o = w.submit(sym, side, 'MARKET', round(q / 2, 2), p + 1, False)
                w.execute(o)
                hist.append(('increase', side, round(q / 2, 2), p + 1))
                q = round(q + round(q / 2, 2), 2)
                kind = rng.choice(['plain', 'oversize'])
            if kind == 'plain':
                o1 = w.submit(sym, opp, 'LIMIT', round(q / 2, 2), p + 5, True)
                w.execute(o1)
                rest = abs(w.pos[sym].qty)
                o2 = w.submit(sym, opp, 'STOP', rest, p - 3, True)
                w.execute(o2)
                hist.append(('tp_half_then_sl_rest',))
            elif kind == 'oversize':
                o1 = w.submit(sym, opp, 'LIMIT', round(q / 2, 2), p + 5, True)
                o2 = w.submit(sym, opp, 'STOP', q, p - 3, True)      # full-size stop stays resting
                w.execute(o1)
                w.execute(o2)                                         # closes the remaining half: oversize
                hist.append(('tp_half_then_full_size_sl',))
            elif kind == 'flip':
                o1 = w.submit(sym, opp, 'MARKET', round(q * 2, 2), p + 2, False)
                w.execute(o1)
                hist.append(('flip', opp, round(q * 2, 2), p + 2))
                rest = abs(w.pos[sym].qty)
                o2 = w.submit(sym, side, 'MARKET', rest, p + 1, True)
                w.execute(o2)
                hist.append(('close_flipped',))
            w.tick()
        st._observe('terminate')
    except Exception as ex:
        import traceback
        hist.append(('raised', repr(ex), traceback.format_exc()[-600:]))
    finally:
        ev = TR.end()
        w.close()
    viol, cnt = check_trace(ev, cfg, any(h[0] == 'raised' for h in hist))
    if any(h[0] == 'raised' for h in hist):
        viol.append({'key': 'history_raised', 'msg': str(hist[-1][1]), 'witness': {'tb': hist[-1][2]}})
    cnt['histories'] = 1
    for x in viol:
        x['witness'].update(config=cfg, history=hist)
    return {'viol': _dedup(viol), 'cnt': cnt, 'sigs': [repr(tuple(h[0] for h in hist))],
            'sample': {'kind': 'history', 'config': cfg, 'history': hist} if job['i'] < 2 else None}


def run_job(job):
    if job['kind'] == 'session':
        return _session(job)
    out = {'viol': [], 'cnt': {}, 'sigs': [], 'sample': None}
    for sub in job['batch']:
        r = _history(sub)
        out['viol'].extend(r['viol'])
        for k, n in r['cnt'].items():
            out['cnt'][k] = out['cnt'].get(k, 0) + n
        out['sigs'].extend(r['sigs'])
        if r.get('sample') and out['sample'] is None:
            out['sample'] = r['sample']
    out['viol'] = _dedup(out['viol'])
    return out


def make_jobs(tier, seed):
    rng = random.Random(60000 + seed)
    jobs = [{'kind': 'session', 'seed': rng.randrange(1 << 30), 'i': i} for i in range(260 if tier == 'quick' else 14000)]
    n = 600 if tier == 'quick' else 80000
    subs = [{'seed': rng.randrange(1 << 30), 'i': i, 'pattern': ['plain', 'oversize', 'flip', 'increase', 'twin', 'wipeout'][i % 6]}
            for i in range(n)]
    jobs += [{'kind': 'batch', 'batch': subs[i:i + 25]} for i in range(0, n, 25)]
    return jobs
