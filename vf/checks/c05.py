"""C05 - order lifecycle: one terminal transition, idempotent execute/cancel, exact active set, one trade per fill.

Monitors (installed from the harness around the real methods):
  * every Order.execute()/cancel() call: status before/after; if the order was already final, a full state snapshot
    (balances, margin tables, committed sums, positions, available margin, trade log, current trade tables, the order
    itself) taken before and after the call must be identical;
  * fault injection: at quiescent points (strategy after(), between direct-drive operations) the monitor itself re-invokes
    execute()/cancel() on randomly chosen final orders, and issues cancel-all while market orders are queued;
  * the set {o in get_active_orders(sym) | o.is_active} and count_active_orders(sym) are compared with the model set
    'added to the store and not final';
  * right after every OrdersState.update_active_orders() (the pruning step the simulators call once per strategy step) the
    unfiltered get_active_orders() list must hold no final order;
  * every executed order must be a member of exactly one trade (closed trades + the open trade).
"""
import random

import numpy as np

from .. import direct, scripted, session, specgen
from ..tracer import TR

PROP = 'C05'
RULE = ('(a) direct-drive histories in spot and futures with >= 20 % duplicate execute/cancel calls, cancel-all with queued market '
        'orders; (b) random scripted backtest sessions (both simulators) with duplicate calls injected at every after() hook. '
        'distinct = distinct sequence of (operation, order type, status before) per history/session; non-trivial = >= 1 call on '
        'a final order.')
ASSUMPTIONS = ['a quiescent point is a strategy before()/after()/terminate() hook or the gap between two direct-drive operations',
               'state snapshot = assets, available assets, futures margin tables, spot committed sums, positions, available '
               'margin, closed trades, open-trade tables, liquidation counter and the order\'s own fields']
MIN_OBS = {'calls_on_final_orders': 1000, 'injected_calls': 200, 'simulator_duplicate_calls': 20,
           'cancel_all_with_queued_market': 50, 'active_set_comparisons': 2000, 'trade_membership_checks': 200,
           'terminal_transitions': 2000, 'pruned_list_checks': 2000, 'sessions_with_liquidation': 10,
           'final_status_rechecks': 10000}

from ..gen import TF_MIN

M = {'on': False}


def _tables(e):
    out = {}
    for name in ('buy_orders', 'sell_orders'):
        for k, arr in getattr(e, name).items():
            out[f'{name}:{k}'] = (len(arr), arr[:].tobytes())
    return out


def snapshot(order=None):
    from jesse.store import store
    s = {}
    for name, e in store.exchanges.storage.items():
        s[f'assets:{name}'] = dict(e.assets)
        s[f'avail:{name}'] = dict(e.available_assets)
        s[f'tables:{name}'] = _tables(e)
        if e.type == 'spot':
            s[f'sums:{name}'] = (dict(e.stop_orders_sum), dict(e.limit_orders_sum))
        else:
            try:
                s[f'am:{name}'] = float(e.available_margin)
            except Exception as ex:
                s[f'am:{name}'] = type(ex).__name__
    for k, p in store.positions.storage.items():
        s[f'pos:{k}'] = (p.qty, p.entry_price, p.previous_qty, p.opened_at, p.closed_at, p.exit_price)
    ct = store.completed_trades
    s['trades'] = (len(ct.trades), tuple(id(t) for t in ct.trades[-3:]), tuple(len(t.orders) for t in ct.trades[-3:]))
    s['temp'] = {k: (len(t.orders), len(t.buy_orders), len(t.sell_orders), t.opened_at) for k, t in ct.tempt_trades.items()}
    s['liq'] = store.app.total_liquidations
    s['queued'] = len(store.orders.to_execute)
    if order is not None:
        s['order'] = (order.status, order.executed_at, order.canceled_at, order.qty, order.price, order.trade_id)
    return s


def _diff(a, b):
    return [k for k in a if a[k] != b.get(k)]


def install():
    if M.get('installed'):
        return
    M['installed'] = True
    TR.install()
    from jesse.models import Order
    from jesse.store.state_orders import OrdersState
    inner_exec, inner_cancel = Order.execute, Order.cancel

    def wrap(kind, inner):
        def f(order, *a, **kw):
            if not M['on']:
                return inner(order, *a, **kw)
            st = order.status
            final = st in ('EXECUTED', 'CANCELED')
            rec = M['rec'].setdefault(id(order), {'ref': order, 'final': None})
            if final:
                before = snapshot(order)
            r = inner(order, *a, **kw)
            if final:
                after = snapshot(order)
                M['cnt']['calls_on_final_orders'] = M['cnt'].get('calls_on_final_orders', 0) + 1
                M['cnt'][f'final_call:{kind}_on_{st}'] = M['cnt'].get(f'final_call:{kind}_on_{st}', 0) + 1
                if M.get('injecting'):
                    M['cnt']['injected_calls'] = M['cnt'].get('injected_calls', 0) + 1
                else:
                    M['cnt']['simulator_duplicate_calls'] = M['cnt'].get('simulator_duplicate_calls', 0) + 1
                M['ops'].append((kind, order.type, st))
                d = _diff(before, after)
                if d:
                    _viol(f'{kind}_on_{st.lower()}_order_changes_state',
                          f'{kind}() on an order that is already {st} changed {d}: '
                          f'{ {k: (before[k], after[k]) for k in d if k != "tables"} }', order)
            else:
                new = order.status
                if new in ('EXECUTED', 'CANCELED'):
                    M['cnt']['terminal_transitions'] = M['cnt'].get('terminal_transitions', 0) + 1
                    if rec['final'] is not None:
                        _viol('second_terminal_transition', f'order went {rec["final"]} and later {new}', order)
                    rec['final'] = new
                    try:
                        from jesse.store import store as _st
                        rec['final_t'] = _st.app.time
                    except Exception:
                        rec['final_t'] = None
                    if new == 'EXECUTED':
                        M['executed'].append(order)
                    M['ops'].append((kind, order.type, st))
            if rec['final'] is not None and order.status != rec['final']:
                _viol('status_changed_after_final', f'order status {rec["final"]} -> {order.status}', order)
            return r
        return f

    Order.execute = wrap('execute', inner_exec)
    Order.cancel = wrap('cancel', inner_cancel)
    inner_add = OrdersState.add_order

    def add_order(self, order):
        r = inner_add(self, order)
        if M['on']:
            M['added'].append(order)
        return r

    OrdersState.add_order = add_order
    inner_upd = OrdersState.update_active_orders

    def update_active_orders(self, exchange, symbol):
        r = inner_upd(self, exchange, symbol)
        if M['on']:
            # the pruning step: right after it, the unfiltered active list holds no final order
            lst = self.get_active_orders(exchange, symbol)
            M['cnt']['pruned_list_checks'] = M['cnt'].get('pruned_list_checks', 0) + 1
            stale = [o for o in lst if o.status in ('EXECUTED', 'CANCELED')]
            if stale:
                _viol('final_order_left_in_active_list_after_pruning',
                      f'{exchange}-{symbol}: get_active_orders still holds {len(stale)} final orders right after update_active_orders '
                      f'({[(o.type, o.side, o.price, o.status) for o in stale][:4]})', stale[0])
        return r

    OrdersState.update_active_orders = update_active_orders


def _viol(key, msg, order=None):
    if key in M['keys']:
        M['cnt']['viol:' + key] = M['cnt'].get('viol:' + key, 0) + 1
        return
    M['keys'].add(key)
    w = {'ops_tail': list(M['ops'][-12:])}
    if order is not None:
        w['order'] = {'type': order.type, 'side': order.side, 'qty': order.qty, 'price': order.price,
                      'status': order.status, 'reduce_only': order.reduce_only}
    M['viol'].append({'key': key, 'msg': msg, 'witness': w})


def begin():
    install()
    M.update(on=True, cnt={}, viol=[], keys=set(), rec={}, added=[], executed=[], ops=[], injecting=False, prev_before={})


def quiescent_checks(full=False):
    """active-set comparison (+ trade membership when full)"""
    from jesse.store import store
    from jesse.routes import router
    cnt = M['cnt']
    for r in router.routes:
        key = (r.exchange, r.symbol)
        model = [o for o in M['added'] if o.exchange == r.exchange and o.symbol == r.symbol
                 and M['rec'].get(id(o), {}).get('final') is None and o.status not in ('EXECUTED', 'CANCELED')]
        real = [o for o in store.orders.get_active_orders(r.exchange, r.symbol) if o.is_active]
        cnt['active_set_comparisons'] = cnt.get('active_set_comparisons', 0) + 1
        if model:
            cnt['active_set_comparisons_nonempty'] = cnt.get('active_set_comparisons_nonempty', 0) + 1
        if {id(o) for o in model} != {id(o) for o in real} or len(real) != len({id(o) for o in real}):
            _viol('active_orders_differ_from_submitted_not_final',
                  f'{key}: store reports {len(real)} active orders, {len(model)} submitted orders are not final '
                  f'(missing {[ (o.type, o.side, o.price) for o in model if id(o) not in {id(x) for x in real}][:4]}, '
                  f'extra {[(o.type, o.side, o.price, o.status) for o in real if id(o) not in {id(x) for x in model}][:4]})')
        n = store.orders.count_active_orders(r.exchange, r.symbol)
        if n != len(model):
            _viol('count_active_orders_differs', f'{key}: count_active_orders {n}, model {len(model)}')
    # an order that reached a final status keeps exactly that status (also when nobody calls execute()/cancel() on it again)
    for rec in M['rec'].values():
        if rec['final'] is not None:
            cnt['final_status_rechecks'] = cnt.get('final_status_rechecks', 0) + 1
            if rec['ref'].status != rec['final']:
                _viol('status_changed_after_final', f'order status {rec["final"]} -> {rec["ref"].status} (found at a quiescent point)',
                      rec['ref'])
    if full:
        ct = store.completed_trades
        member = {}
        for t in list(ct.trades) + list(ct.tempt_trades.values()):
            for o in t.orders:
                member[id(o)] = member.get(id(o), 0) + 1
        for o in M['executed']:
            cnt['trade_membership_checks'] = cnt.get('trade_membership_checks', 0) + 1
            if member.get(id(o), 0) != 1:
                _viol('executed_order_not_in_exactly_one_trade',
                      f'executed {o.type} {o.side} {o.qty}@{o.price} is recorded in {member.get(id(o), 0)} trades', o)
                break


def inject(rng, n=2):
    """re-invoke execute()/cancel() on already final orders"""
    finals = [r['ref'] for r in M['rec'].values() if r['final'] is not None]
    if not finals:
        return
    M['injecting'] = True
    try:
        for _ in range(n):
            o = rng.choice(finals)
            if rng.random() < 0.5:
                o.execute()
            else:
                o.cancel()
    finally:
        M['injecting'] = False


# ------------------------------------------------------------------------------------------------
def hook_monitor(strategy, hook, ev):
    if not M['on'] or not M.get('session'):
        return
    if hook == 'before':
        # the list itself (not only its ACTIVE members): whatever was final before this route's previous step has been through
        # at least one pruning of this symbol's list since
        from jesse.store import store
        from jesse.routes import router
        import math as _m
        now = store.app.time
        prev_t = M.setdefault('prev_before', {}).get(id(strategy))
        M['prev_before'][id(strategy)] = now
        if prev_t is not None:
            M['cnt']['raw_active_list_checks'] = M['cnt'].get('raw_active_list_checks', 0) + 1
            for o in store.orders.get_active_orders(strategy.exchange, strategy.symbol):
                rec = M['rec'].get(id(o))
                if rec and rec.get('final') is not None and rec.get('final_t') is not None and rec['final_t'] < prev_t:
                    _viol('final_order_still_in_the_active_list_after_a_full_step',
                          f'{strategy.symbol}: {o.type} {o.side} {o.price} has been {rec["final"]} since {rec["final_t"]} but is still '
                          f'in the list of active orders at {now} (previous step of this route at {prev_t})', o)
                    break
        # every route's list is pruned after every simulator step (a minute; a chunk = gcd of the route timeframes in the fast
        # simulator), whether or not that route's strategy ran: what was final before the END of the previous step is gone
        step = 1
        if M.get('fast'):
            step = 0
            for r_ in router.all_formatted_routes:
                step = _m.gcd(step, TF_MIN.get(r_['timeframe'], 1))
        horizon = now - 2 * step * 60000
        for r_ in router.routes:
            if r_.symbol == strategy.symbol:
                continue
            M['cnt']['raw_active_list_checks_other_routes'] = M['cnt'].get('raw_active_list_checks_other_routes', 0) + 1
            for o in store.orders.get_active_orders(r_.exchange, r_.symbol):
                rec = M['rec'].get(id(o))
                if rec and rec.get('final') is not None and rec.get('final_t') is not None and rec['final_t'] <= horizon:
                    _viol('final_order_still_in_the_active_list_of_an_idle_route',
                          f'{r_.symbol}: {o.type} {o.side} {o.price} has been {rec["final"]} since {rec["final_t"]} but is still in the '
                          f'list of active orders at {now} (seen from the route of {strategy.symbol}, step {step} min)', o)
                    break
    if hook in ('before', 'after', 'terminate'):
        quiescent_checks(full=(hook == 'terminate' or strategy.index % 50 == 49))
    elif hook in ('on_open_position', 'on_close_position', 'on_increased_position', 'on_reduced_position'):
        # inside a fill callback the books must be exact as well (the order being executed is already final there)
        M['cnt']['callback_active_set_checks'] = M['cnt'].get('callback_active_set_checks', 0) + 1
        quiescent_checks()
    if hook == 'after':
        inject(M['rng'], 2)
        quiescent_checks()


def _liq_spec(job, rng):
    """a steered isolated-margin session of C09 (the position is force-closed by the simulator's own liquidation order)"""
    from . import c09
    lj = {'seed': job['seed'], 'i': job['i'], 'lev': rng.choice([5, 10, 25]), 'side': rng.choice(['long', 'short']),
          'pattern': rng.choice(['touch', 'overshoot', 'gap_jump']), 'stop': False, 'fast': rng.random() < 0.4,
          'mode': 'isolated', 'averaged': rng.random() < 0.3, 'tf': rng.choice(['1m', '5m']), 'fee': rng.choice([0, 0.001]),
          'close_mode': rng.choice(['half', 'recover_profit']), 'resting_tps': rng.choice([0, 3]), 'partial_tp': False}
    arr, script, info = c09.build(lj)
    script['observe'] = 'light'
    cfg = {'starting_balance': 10000, 'fee': lj['fee'], 'type': 'futures', 'futures_leverage': lj['lev'],
           'futures_leverage_mode': 'isolated'}
    spec = {'config': cfg, 'routes': [{'symbol': 'BTC-USDT', 'timeframe': lj['tf'], 'script': script}],
            'data_routes': [], 'candles': {}, 'warmup': 0, 'fast': lj['fast']}
    return spec, {'BTC-USDT': arr}


def _session(job):
    rng = random.Random(job['seed'])
    candles = None
    if job.get('liq'):
        spec, candles = _liq_spec(job, rng)
    else:
        spec = specgen.random_session(rng, minutes=rng.choice([240, 400, 600]))
    for r in spec['routes']:
        r['script']['observe'] = 'light'
        if not job.get('liq') and rng.random() < 0.4:
            # several MARKET exits pending in one flush (the first closes the position, cancel-all meets a queued order)
            r['script']['update_kinds'] = list(r['script'].get('update_kinds') or []) + ['double_market_exit', 'double_market_exit']
            r['script']['p_update'] = max(r['script'].get('p_update') or 0.0, 0.2)
        elif not job.get('liq') and rng.random() < 0.35:
            # the position is closed by a MARKET exit inside the strategy step (liquidate() in update_position) and the
            # callback of that close places a resting order through the broker
            r['script']['update_kinds'] = list(r['script'].get('update_kinds') or []) + ['liquidate', 'liquidate']
            r['script']['p_update'] = max(r['script'].get('p_update') or 0.0, 0.2)
            r['script']['on_close_broker'] = True
            r['script']['on_cancel_broker'] = 0.5       # ... and so does the hook that reports a cancelled entry
            r['script']['cancel_policy'] = 'rnd'
    begin()
    M['session'] = True
    M['fast'] = bool(spec.get('fast'))
    M['rng'] = random.Random(job['seed'] + 1)
    if hook_monitor not in scripted.HOOK_MONITORS:
        scripted.HOOK_MONITORS.append(hook_monitor)
    def _liq_seen(ev):
        if ev['k'] == 'liq_exit' and ev.get('liq_total'):
            M['cnt']['sessions_with_liquidation'] = 1

    out = session.run_session(spec, subs=[_liq_seen], keep_events=False, snapshots=False, candles=candles)
    M['on'] = False
    cnt = M['cnt']
    cnt['sessions'] = 1
    for x in M['viol']:
        x['witness']['spec'] = spec
    res = {'viol': M['viol'], 'cnt': cnt,
           'sigs': [repr(tuple(M['ops'][:60]))] if cnt.get('calls_on_final_orders') else []}
    if job['i'] < 2:
        res['sample'] = {'kind': 'session', 'fast': spec['fast'], 'type': spec['config']['type'],
                         'ops_head': M['ops'][:15], 'calls_on_final': cnt.get('calls_on_final_orders', 0)}
    return res


def _history(job):
    rng = random.Random(job['seed'])
    spot = rng.random() < 0.4
    syms = ['BTC-USDT', 'ETH-USDT'][:rng.choice([1, 2])]
    cfg = {'starting_balance': 10000, 'fee': rng.choice([0, 0.001]), 'type': 'spot' if spot else 'futures'}
    if not spot:
        cfg.update(futures_leverage=rng.choice([1, 2, 10]), futures_leverage_mode='cross')
    begin()
    M['session'] = False
    w = direct.World(cfg, syms)
    from jesse.services.api import api
    from jesse.store import store
    hist = []
    try:
        for step in range(job['length']):
            sym = rng.choice(syms)
            p = w.pos[sym]
            cur = p.current_price
            r = rng.random()
            act = [o for o in w.orders if o.is_active and o.symbol == sym]
            try:
                if r < 0.25:
                    side = 'buy' if spot else rng.choice(['buy', 'sell'])
                    typ = rng.choice(['LIMIT', 'STOP'])
                    q = round(rng.uniform(0.01, 2), 3)
                    hist.append(('submit', typ, side))
                    w.submit(sym, side, typ, q, round(cur * (1 + rng.uniform(-0.02, 0.02)), 2), False)
                elif r < 0.38:
                    # market order through the sandbox driver: queued, flushed later
                    side = 'buy' if (spot or rng.random() < 0.5) else 'sell'
                    hist.append(('market', side))
                    o = api.market_order(direct.EXCHANGE, sym, round(rng.uniform(0.01, 1), 3), cur, side, False)
                    w.orders.append(o)
                    if rng.random() < 0.35:
                        M['cnt']['cancel_all_with_queued_market'] = M['cnt'].get('cancel_all_with_queued_market', 0) + 1
                        hist.append(('cancel_all',))
                        api.cancel_all_orders(direct.EXCHANGE, sym)
                    store.orders.execute_pending_market_orders()
                elif r < 0.48 and p.is_open:
                    side = 'sell' if p.qty > 0 else 'buy'
                    typ = rng.choice(['LIMIT', 'STOP'])
                    hist.append(('submit_ro', typ, side))
                    w.submit(sym, side, typ, abs(p.qty) if rng.random() < 0.6 else round(abs(p.qty) / 2, 4) or abs(p.qty),
                             round(cur * (1 + rng.uniform(-0.02, 0.02)), 2), True)
                elif r < 0.62 and act:
                    hist.append(('execute',))
                    w.execute(rng.choice(act))
                elif r < 0.72 and act:
                    hist.append(('cancel',))
                    w.cancel(rng.choice(act))
                elif r < 0.76:
                    hist.append(('cancel_all',))
                    api.cancel_all_orders(direct.EXCHANGE, sym)
                else:
                    hist.append(('dup',))
                    inject(rng, rng.choice([1, 2, 3]))
            except Exception as ex:
                from jesse.exceptions import InsufficientMargin, InsufficientBalance
                if isinstance(ex, (InsufficientMargin, InsufficientBalance)):
                    break
                raise
            for s in syms:
                store.orders.update_active_orders(direct.EXCHANGE, s) if rng.random() < 0.3 else None
            quiescent_checks(full=(step % 10 == 9))
        quiescent_checks(full=True)
    finally:
        M['on'] = False
        w.close()
    cnt = M['cnt']
    cnt['histories'] = 1
    for x in M['viol']:
        x['witness'].update(config=cfg, history=hist)
    return {'viol': M['viol'], 'cnt': cnt, 'sigs': [repr(tuple(M['ops'][:60]))] if cnt.get('calls_on_final_orders') else [],
            'sample': {'kind': 'history', 'config': cfg, 'history_head': hist[:20]} if job['i'] < 2 else None}


def run_job(job):
    if job['kind'] == 'session':
        return _session(job)
    out = {'viol': [], 'cnt': {}, 'sigs': [], 'sample': None}
    for sub in job['batch']:
        r = _history(sub)
        out['viol'].extend(r['viol'])
        for k, n in r['cnt'].items():
            out['cnt'][k] = out['cnt'].get(k, 0) + n
        out['sigs'].extend(r['sigs'])
        if r.get('sample') and out['sample'] is None:
            out['sample'] = r['sample']
    seen, vv = set(), []
    for x in out['viol']:
        if x['key'] not in seen:
            seen.add(x['key'])
            vv.append(x)
    out['viol'] = vv
    return out


def make_jobs(tier, seed):
    rng = random.Random(50000 + seed)
    n = 2000 if tier == 'quick' else 250000
    subs = [{'seed': rng.randrange(1 << 30), 'i': i, 'length': rng.choice([8, 20, 40, 60])} for i in range(n)]
    jobs = [{'kind': 'batch', 'batch': subs[i:i + 25]} for i in range(0, n, 25)]
    for i in range(160 if tier == 'quick' else 10000):
        jobs.append({'kind': 'session', 'seed': rng.randrange(1 << 30), 'i': i, 'liq': i % 5 == 4})
    return jobs
