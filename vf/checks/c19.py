"""C19 - optimizer DNA decodes into in-range, typed, monotone hyperparameters; hyperparameter injection precedence.

Part 1: the real decoder on every letter of the optimizer's alphabet x positions 0..3 x ~300 declarations.
Part 2: real backtest sessions for every combination of {declared defaults, explicit hyperparameters, dna()} on one and
        two routes; the hp a strategy sees in before() is recorded by the scripted strategy and compared.
"""
import random

from .. import gen, session

PROP = 'C19'
RULE = ('Part 1: exhaustive over the 80-letter alphabet x gene positions 0..3 x declarations (negative, fractional, min = max-1, '
        'huge, int and float); Part 2: sessions for the 8 combinations of {defaults, explicit, dna()} x {1, 2 routes} x route order. '
        'distinct = distinct (declaration, position) / (combination, routes); non-trivial = every decode / every session with hp seen.')
ASSUMPTIONS = ['float results may exceed a bound by 1e-9 * max(1, |min|, |max|) (the last letter decodes to max + 1 ulp for some '
               'fractional ranges - float noise, not a range error); ints must be exact ints in range',
               'Part 2 compares with the real decoder output (checked in Part 1) and with the declared defaults / passed dict']
MIN_OBS = {'decodes': 50000, 'declarations': 200, 'monotone_pairs': 50000, 'hp_sessions': 30, 'hp_observations': 500,
           'declarations_with_zero_default': 4, 'decodes_with_repeated_letters': 2000,
           'session_dnas_with_repeated_letters': 1, 'hp_sessions_reusing_argument_objects': 10,
           'hp_sessions_with_report_options': 4, 'fast_sessions_with_one_minute_chunks': 2,
           'int_declarations_with_float_typed_bounds': 20}
EXHAUSTIVE_NOTE = 'Part 1 enumerates every letter of the alphabet at every gene position for every generated declaration'
ALPHABET = r'()*+,-./0123456789:;<=>?@ABCDEFGHIJKLMNOPQRSTUVWXYZ[\]^_`abcdefghijklmnopqrstuvw'


def _part1(job):
    import jesse.helpers as jh
    rng = random.Random(job['seed'])
    viol, cnt, sigs = [], {}, []
    try:
        from jesse.modes.optimize_mode.Optimize import Optimizer
        import inspect
        charset = inspect.signature(Optimizer.__init__).parameters['charset'].default
    except Exception:
        charset = ALPHABET
    if charset != ALPHABET:
        viol.append({'key': 'alphabet_changed', 'msg': f'optimizer charset is {charset!r}', 'witness': {}})
    decls = []
    for _ in range(job['n']):
        typ = rng.choice(['int', 'float'])
        kind = rng.choice(['pos', 'neg', 'span0', 'tiny', 'huge', 'unit'])
        if typ == 'int':
            lo = {'pos': rng.randint(0, 50), 'neg': rng.randint(-500, -1), 'span0': rng.randint(-5, 5), 'tiny': 0,
                  'huge': rng.randint(10 ** 6, 10 ** 9), 'unit': rng.randint(-3, 3)}[kind]
            hi = lo + {'pos': rng.randint(1, 300), 'neg': rng.randint(1, 600), 'span0': 1, 'tiny': rng.randint(1, 3),
                       'huge': rng.randint(1, 10 ** 9), 'unit': 1}[kind]
        else:
            lo = {'pos': rng.uniform(0, 50), 'neg': rng.uniform(-500, -1), 'span0': rng.uniform(-1, 1), 'tiny': rng.uniform(0, 1e-6),
                  'huge': rng.uniform(1e6, 1e12), 'unit': 0.0}[kind]
            hi = lo + {'pos': rng.uniform(0.01, 300), 'neg': rng.uniform(0.5, 600), 'span0': rng.uniform(1e-9, 1e-3),
                       'tiny': rng.uniform(1e-9, 1e-6), 'huge': rng.uniform(1, 1e12), 'unit': 1.0}[kind]
        if typ == 'int' and rng.random() < 0.3:
            # an int parameter whose bounds are WRITTEN as floats (1e2, 20.0): the decoded values are integers all the same
            lo, hi = float(lo), float(hi)
            cnt['int_declarations_with_float_typed_bounds'] = cnt.get('int_declarations_with_float_typed_bounds', 0) + 1
            if rng.random() < 0.4 and hi - lo >= 2:
                # ... and fractional ones: the integers inside [min, max] are ceil(min) .. floor(max)
                lo, hi = lo + 0.5, hi + rng.choice([0.5, -0.25, 0.75])
                cnt['int_declarations_with_fractional_bounds'] = cnt.get('int_declarations_with_fractional_bounds', 0) + 1
        decls.append({'name': f'p{len(decls)}', 'type': typ, 'min': lo, 'max': hi, 'default': lo})
    for d in decls:
        cnt['declarations'] = cnt.get('declarations', 0) + 1
        T = int if d['type'] == 'int' else float
        tol = 0 if T is int else 1e-9 * max(1.0, abs(d['min']), abs(d['max']))
        for pos in range(4):
            hps = [{'name': f'x{i}', 'type': int, 'min': 0, 'max': 10, 'default': 0} for i in range(4)]
            hps[pos] = {'name': 'target', 'type': T, 'min': d['min'], 'max': d['max'], 'default': d['min']}
            prev = None
            for ci, ch in enumerate(ALPHABET):
                filler = [rng.choice(ALPHABET) for _ in range(4)]
                filler[pos] = ch
                dna = ''.join(filler)
                try:
                    full = jh.dna_to_hp(hps, dna)
                except Exception as ex:
                    viol.append({'key': f'decode_raises:{type(ex).__name__}', 'msg': f'{ex!r}', 'witness': {'decl': d, 'dna': dna}})
                    break
                cnt['decodes'] = cnt.get('decodes', 0) + 1
                # one value per declared hyperparameter, under its own name (letters may repeat inside a DNA)
                if len(set(dna)) < len(dna):
                    cnt['decodes_with_repeated_letters'] = cnt.get('decodes_with_repeated_letters', 0) + 1
                if sorted(full) != sorted(h['name'] for h in hps):
                    if sum(1 for x in viol if x['key'] == 'decoded_names_differ_from_declared') < 2:
                        viol.append({'key': 'decoded_names_differ_from_declared', 'msg': f'{dna!r} -> {sorted(full)}',
                                     'witness': {'decl': d, 'dna': dna, 'position': pos}})
                    break
                v = full['target']

                def bad(key, msg):
                    if sum(1 for x in viol if x['key'] == key) < 2:
                        viol.append({'key': key, 'msg': msg, 'witness': {'decl': d, 'dna': dna, 'position': pos, 'letter': ch}})

                if T is int and type(v) is not int:
                    bad('int_parameter_not_int', f'{d} letter {ch!r} -> {v!r} ({type(v).__name__})')
                if T is float and not isinstance(v, float):
                    bad('float_parameter_not_float', f'{d} letter {ch!r} -> {v!r} ({type(v).__name__})')
                if v < d['min'] - tol or v > d['max'] + tol:
                    bad('decoded_value_out_of_range', f'{d} letter {ch!r} -> {v!r}')
                # depends only on the gene at that position
                filler2 = [rng.choice(ALPHABET) for _ in range(4)]
                filler2[pos] = ch
                try:
                    v2 = jh.dna_to_hp(hps, ''.join(filler2)).get('target', 'missing')
                except Exception as ex:
                    v2 = f'raised {ex!r}'
                if v2 != v:
                    bad('decoded_value_depends_on_other_genes', f'{dna!r} -> {v!r}, {"".join(filler2)!r} -> {v2!r}')
                if prev is not None:
                    cnt['monotone_pairs'] = cnt.get('monotone_pairs', 0) + 1
                    if v < prev - (0 if T is int else 1e-12 * max(1.0, abs(prev))):
                        bad('decoding_not_monotone', f'{d}: letter {ALPHABET[ci - 1]!r} -> {prev!r}, letter {ch!r} -> {v!r}')
                prev = v
                import math as _m
                end_lo = _m.ceil(d['min']) if T is int else d['min']      # (the smallest / largest value of the declared type
                end_hi = _m.floor(d['max']) if T is int else d['max']     #  inside the declared range)
                if ci == 0 and abs(v - end_lo) > tol:
                    bad('first_letter_not_min', f'{d}: first letter -> {v!r}')
                if ci == len(ALPHABET) - 1 and abs(v - end_hi) > tol:
                    bad('last_letter_not_max', f'{d}: last letter -> {v!r}')
            sigs.append(repr((d['type'], round(d['min'], 6), round(d['max'], 6), pos)))
    return {'viol': viol, 'cnt': cnt, 'sigs': sigs, 'sample': {'part': 1, 'declarations_head': decls[:3]} if job['i'] == 0 else None}


def _ref_decode(decl, dna):
    # the check's own decoder: gene i belongs to declaration i; letters 40..119 map linearly onto [min, max]
    out = {}
    for i, h in enumerate(decl):
        x = (ord(dna[i]) - 40) * (h['max'] - h['min']) / 79 + h['min']
        out[h['name']] = int(round(x)) if h['type'] is int else x
    return out


def _same_hp(got, exp):
    if sorted(got) != sorted(exp):
        return False
    for k, x in exp.items():
        y = got[k]
        if isinstance(x, float):
            if not isinstance(y, float) or abs(x - y) > 1e-12 * max(1.0, abs(x)):
                return False
        elif type(y) is not type(x) or x != y:
            return False
    return True


def _part2(job):
    import jesse.helpers as jh
    rng = random.Random(job['seed'])
    viol, cnt, sigs = [], {}, []
    nroutes = job['nroutes']
    syms = ['BTC-USDT', 'ETH-USDT'][:nroutes]
    routes, expect = [], {}
    explicit = {'a': 7, 'b': rng.choice([0.25, 0.12345, -0.375, 1 / 3, 2.0000001]), 'zz': 3} if job['explicit'] else None
    explicit_snapshot = dict(explicit) if explicit is not None else None
    for i, sym in enumerate(syms):
        has_defaults = job['defaults'][i]
        has_dna = job['dna'][i]
        decl = []
        if has_defaults:
            # bounds of either sign; the declared default is often a boundary or exactly zero (0 / 0.0 are falsy values)
            imin = rng.choice([-10, -5, 0, 1])
            imax = imin + rng.choice([5, 20, 100])
            idef = rng.choice([0 if imin <= 0 <= imax else imin, imin, imax, rng.randint(imin, imax)])
            fmin = rng.choice([-1.0, -2.5, 0.0, 0.5])
            fmax = fmin + rng.choice([1.0, 2.0, 7.5])
            fdef = rng.choice([0.0 if fmin <= 0.0 <= fmax else fmin, fmin, fmax, round(rng.uniform(fmin, fmax), 3)])
            decl = [{'name': 'a' if i == 0 else 'c', 'type': 'int', 'min': imin, 'max': imax, 'default': idef},
                    {'name': 'b' if i == 0 else 'd', 'type': 'float', 'min': fmin, 'max': fmax, 'default': fdef},
                    {'name': 'e' if i == 0 else 'f', 'type': 'int', 'min': 2, 'max': 9, 'default': 3}]
            # one, two or three declared hyperparameters (a one-letter DNA is a DNA too)
            nh = rng.choice([1, 1, 2, 3])
            if nh == 1:
                decl = [rng.choice(decl[:2])]
                cnt['single_hyperparameter_declarations'] = cnt.get('single_hyperparameter_declarations', 0) + 1
            else:
                decl = decl[:nh]
            if any(h['default'] == 0 for h in decl):
                cnt['declarations_with_zero_default'] = cnt.get('declarations_with_zero_default', 0) + 1
        dna = ''.join(rng.choice(ALPHABET) for _ in decl) if (has_dna and decl) else ''
        # trading timeframes of every kind (the fast simulator's chunk is their gcd: 1 minute with a 1m route or 3m next to 5m)
        tf_ = rng.choice(['5m', '1m', '3m', '5m', '15m'])
        if job['fast'] and tf_ in ('1m', '3m'):
            cnt['fast_sessions_with_one_minute_chunks'] = 1 if (tf_ == '1m' or nroutes == 2) else cnt.get('fast_sessions_with_one_minute_chunks', 0)
        if dna and len(dna) > 1 and rng.random() < 0.85:
            # the same letter in several positions: every gene still belongs to its own declaration
            k = rng.randrange(1, len(dna))
            dna = dna[:k] + dna[0] + dna[k + 1:]
        script = {'seed': rng.randrange(1 << 30), 'p_enter': 0.05, 'observe': 'light', 'log_hp': True, 'hyperparameters': decl,
                  'dna': dna, 'sl': 0.01, 'tp': 0.01, 'entry': 'market'}
        if dna and rng.random() < 0.4:
            # the strategy picks its DNA by route: this route's own string, a different one for anything else
            other = ''.join(rng.choice([c for c in ALPHABET if c != dna[0]]) for _ in decl)
            script['dna_by_route'] = {f'{sym}|{tf_}': dna, 'default': other}
            cnt['dna_chosen_by_route'] = cnt.get('dna_chosen_by_route', 0) + 1
        routes.append({'symbol': sym, 'timeframe': tf_, 'script': script})
        real_decl = [dict(h, type=int if h['type'] == 'int' else float) for h in decl]
        if explicit is not None:
            expect[sym] = explicit_snapshot
        elif dna:
            expect[sym] = _ref_decode(real_decl, dna)
            if len(set(dna)) < len(dna):
                cnt['session_dnas_with_repeated_letters'] = cnt.get('session_dnas_with_repeated_letters', 0) + 1
        elif decl:
            expect[sym] = {h['name']: h['default'] for h in decl}
        else:
            expect[sym] = None
    if job.get('swap'):
        routes = routes[::-1]
    spec = {'config': {'starting_balance': 10000, 'fee': 0.001, 'type': 'futures', 'futures_leverage': 2,
                       'futures_leverage_mode': 'cross'},
            'routes': routes, 'data_routes': [], 'warmup': 0, 'fast': job['fast'], 'hyperparameters': explicit,
            'candles': {s: gen.random_spec(rng, 300, 'walk') for s in syms}}
    events = []
    if explicit is not None:
        # the same argument objects serve two sessions (what an optimiser does with one decoded candidate: a training and a
        # testing run); the first one may ask for the report options - nothing of that may change what the strategy sees
        allc = session.build_candles(spec)
        args = session.build_args(spec, allc)
        opts = rng.choice([{}, {'generate_hyperparameters': True}, {'generate_hyperparameters': True, 'generate_equity_curve': True}])
        for n_run, o_ in enumerate((opts, {})):
            out = session.run_session(dict(spec, options=o_), snapshots=False, candles=allc, args=args)
            cnt['hp_sessions'] = cnt.get('hp_sessions', 0) + 1
            cnt['hp_sessions_reusing_argument_objects'] = cnt.get('hp_sessions_reusing_argument_objects', 0) + n_run
            if o_:
                cnt['hp_sessions_with_report_options'] = cnt.get('hp_sessions_with_report_options', 0) + 1
            if out['error']:
                viol.append({'key': 'hp_session_raised:' + out['error']['type'], 'msg': out['error']['msg'],
                             'witness': {'tb': out['error']['tb'], 'options': o_}})
            events += out['events']
            if args['hyperparameters'] != explicit_snapshot or any(
                    type(args['hyperparameters'].get(k_)) is not type(v_) for k_, v_ in explicit_snapshot.items()):
                viol.append({'key': 'explicit_hyperparameters_modified',
                             'msg': f'the hyperparameters dict handed to research.backtest is {args["hyperparameters"]} after the '
                                    f'session (options {o_}), it was {explicit_snapshot}', 'witness': {'job': job, 'options': o_}})
                break
    else:
        out = session.run_session(spec, snapshots=False)
        cnt['hp_sessions'] = 1
        if out['error']:
            viol.append({'key': 'hp_session_raised:' + out['error']['type'], 'msg': out['error']['msg'], 'witness': {'tb': out['error']['tb']}})
        events = out['events']
    seen = {}
    for e in events:
        if e['k'] == 'hook' and e['hook'] == 'before' and 'hp' in e:
            cnt['hp_observations'] = cnt.get('hp_observations', 0) + 1
            sym = e['symbol']
            exp = expect[sym]
            got = e['hp']
            same = (got is None and exp is None) or (got is not None and exp is not None and _same_hp(got, dict(exp)))
            if not same and sym not in seen:
                seen[sym] = True
                order = [r['symbol'] for r in routes]
                key = 'strategy_sees_wrong_hyperparameters'
                if nroutes == 2 and explicit is None:
                    other = [s for s in syms if s != sym][0]
                    if got is not None and expect[other] is not None and got == dict(expect[other]):
                        key = 'hp_leaks_across_routes'
                viol.append({'key': key, 'msg': f'{sym} (routes {order}) sees hp {got}, expected {exp} (explicit={explicit is not None}, '
                                                f'dna={job["dna"]}, defaults={job["defaults"]})',
                             'witness': {'job': job, 'expected': {k: (dict(v) if v else v) for k, v in expect.items()}}})
    sigs.append(repr((nroutes, job['explicit'], tuple(job['dna']), tuple(job['defaults']), bool(job.get('swap')), job['fast'])))
    return {'viol': viol, 'cnt': cnt, 'sigs': sigs,
            'sample': {'part': 2, 'job': job, 'expected': {k: (dict(v) if v else v) for k, v in expect.items()}} if job['i'] < 2 else None}


def run_job(job):
    return _part1(job) if job['part'] == 1 else _part2(job)


def make_jobs(tier, seed):
    rng = random.Random(190000 + seed)
    jobs = [{'part': 1, 'seed': rng.randrange(1 << 30), 'n': 20, 'i': i} for i in range(16 if tier == 'quick' else 12000)]
    i = 0
    for rep in range(1 if tier == 'quick' else 300):
        for explicit in (False, True):
            for d0 in (False, True):
                for n0 in (False, True):
                    jobs.append({'part': 2, 'seed': rng.randrange(1 << 30), 'i': i, 'nroutes': 1, 'explicit': explicit,
                                 'defaults': [d0], 'dna': [n0], 'fast': rng.random() < 0.3})
                    i += 1
                    for d1 in (False, True):
                        for n1 in (False, True):
                            jobs.append({'part': 2, 'seed': rng.randrange(1 << 30), 'i': i, 'nroutes': 2, 'explicit': explicit,
                                         'defaults': [d0, d1], 'dna': [n0, n1], 'swap': rng.random() < 0.5,
                                         'fast': rng.random() < 0.3})
                            i += 1
    return jobs
