"""C04 - spot balances equal a cash-account model; no overspending or overselling.

Online shadow-model monitor on direct-drive histories over the real Order / SpotExchange / Position objects.
"""
import math
import random
from decimal import Decimal
from fractions import Fraction as F

from .. import direct, models

PROP = 'C04'
RULE = ('operation histories (buy/sell MARKET/LIMIT/STOP submissions with decimal quantities, cancel, execute, cancel-then-'
        'bigger-sell patterns, sells of the exact holding, many small buys) over 1-2 symbols; compared with the reference cash '
        'account after every operation; every accept/reject decision compared with the model. distinct = distinct sequence of '
        '(operation kind, order type, side, decision); non-trivial = >= 1 fill.')
ASSUMPTIONS = ['resting sell orders are reduce-only (as the strategy layer submits exits); non-reduce-only sells only as MARKET orders',
               'everything resting on a symbol is cancelled when its position closes (stub strategy)',
               'balances compared with relative tolerance 1e-9; decisions closer than 1e-9 relative to the threshold accept either '
               'outcome; submit->cancel must restore the quote balance (rel 1e-12: balances are re-rounded to floats after each decimal operation)']
MIN_OBS = {'near_holding_sells': 30, 'dust_sells': 20, 'exact_split_sells': 100, 'session_state_comparisons': 2000, 'session_fills': 300, 'exact_boundary_cases': 100, 'histories': 300, 'ops': 5000, 'fills': 2000, 'sell_submits_after_cancelled_sell': 300,
           'reject_buy_agreed': 100, 'reject_sell_agreed': 100, 'near_threshold_accepts': 100, 'exact_holding_sells': 200,
           'state_comparisons': 5000}
SYMS = ['BTC-USDT', 'ETH-USDT']


class Stop(Exception):
    pass


def _history(job):
    rng = random.Random(job['seed'])
    nsym = rng.choice([1, 1, 2])
    syms = SYMS[:nsym]
    fee = rng.choice([0, 0.001, 0.00075, 0.002])
    bal = rng.choice([1000, 10000, 250.5])
    prices = {s: rng.choice([100.0, 20.5, 1999.9, 0.37]) for s in syms}
    cfg = {'starting_balance': bal, 'fee': fee, 'type': 'spot'}
    w = direct.World(cfg, syms, prices=prices)
    mdl = models.AccountSpot(bal, fee, syms)
    px = dict(prices)
    cnt, viol, hist = {'histories': 1}, [], []
    live = {}
    dead = []          # (key, order) of cancelled orders
    exch = w.exchange
    import jesse.helpers as jh
    from jesse.exceptions import InsufficientBalance
    cancelled_sell = {s: 0 for s in syms}
    trace = []

    def c(k, n=1):
        cnt[k] = cnt.get(k, 0) + n

    def v(key, msg):
        viol.append({'key': key, 'msg': msg, 'witness': {'config': cfg, 'symbols': syms, 'history': list(hist)}})
        raise Stop()

    peak = [float(bal)]

    def compare(tag):
        c('state_comparisons')
        q = exch.assets['USDT']
        # balances are floats: after large amounts have passed through the account the absolute resolution is that of
        # the largest balance seen, not of the current one
        peak[0] = max(peak[0], abs(q), abs(float(mdl.quote)))
        if q < 0:
            v('negative_quote_balance', f'{tag}: quote balance {q}')
        if abs(q - float(mdl.quote)) > 1e-9 * max(1.0, peak[0]):
            v('quote_balance_differs', f'{tag}: quote {q} model {float(mdl.quote)}')
        for s in syms:
            b = exch.assets[jh.base_asset(s)]
            if b < 0:
                v('negative_base_balance', f'{tag}: {s} base balance {b}')
            if not models.close_enough(b, mdl.base[s]):
                v('base_balance_differs', f'{tag}: {s} base {b} model {mdl.base[s]}')
            p = w.pos[s]
            if p.qty < 0:
                v('short_position_in_spot', f'{tag}: {s} position qty {p.qty}')
            if not models.close_enough(p.qty, b):
                v('position_size_differs_from_base_balance', f'{tag}: {s} position {p.qty} base balance {b}')

    def do_submit(sym, side, typ, qty, price, ro):
        key = len(hist)
        hist.append(['submit', key, sym, side, typ, qty, price, ro])
        must_reject, slack = mdl.check_submit(sym, side, typ, qty, price)
        scale = max(1.0, float(mdl.quote) if side == 'buy' else float(mdl.base[sym]))
        # strict judgement when the balances the account code compares carry exactly the model's values
        if side == 'sell':
            exact = Decimal(repr(float(exch.assets[jh.base_asset(sym)]))) == mdl.base[sym]
        else:
            exact = F(float(exch.assets['USDT'])) == mdl.quote and F(abs(qty) * price) == F(models.D(qty)) * F(price)
        band = (not exact) and abs(slack) <= 1e-9 * scale
        # balances and committed sums are doubles (decimal arithmetic re-rounded to a double after every operation): an excess
        # or a shortfall below the resolution of the compared balance cannot be represented, let alone decided
        res = 4 * math.ulp(max(float(mdl.base[sym]) if side == 'sell' else float(mdl.quote), 1e-300))
        amount = abs(qty) if side == 'sell' else abs(qty) * price
        if 0 < abs(slack) <= res or (slack == 0 and amount <= res):
            # (slack 0 with an order that is itself smaller than the resolution of the balance: whether the re-rounded running
            # sum of the resting sells plus such an amount lands on the balance or one double above it is not decidable either)
            band = True
            c('boundary_below_float_resolution')
        if exact and slack == 0 and not band:
            c('exact_boundary_cases')
        if side == 'sell' and cancelled_sell[sym]:
            c('sell_submits_after_cancelled_sell')
        try:
            o = w.submit(sym, side, typ, qty, price, ro)
        except InsufficientBalance:
            if not must_reject and not band:
                key_ = 'rejected_although_balance_sufficient' + ('_after_cancel' if cancelled_sell[sym] and side == 'sell' else '')
                if side == 'sell' and slack == 0:
                    # classification only: the account's running sum of resting sells (re-rounded to a double after every
                    # submission, cancellation and execution) against the exact one. A residue of a few ulp left behind by
                    # earlier cancellations or fills is the listed finding; anything else keeps the general key
                    sums_ = exch.stop_orders_sum if typ == 'STOP' else exch.limit_orders_sum
                    sut_total = float(sums_.get(sym, 0.0))
                    if typ == 'MARKET':
                        sut_total = float(models.D(qty) + models.D(sut_total))
                    exact_total = float(models.D(qty) + mdl.committed(sym, 'LIMIT' if typ == 'MARKET' else typ))
                    if 0 < sut_total - exact_total <= 4 * math.ulp(max(float(mdl.base[sym]), 1e-300)):
                        key_ = 'exact_boundary_sell_rejected:committed_sum_residue'
                v(key_, f'{side} {typ} {qty}@{price}: slack {slack:.3e} (model: acceptable) was rejected')
            c('reject_buy_agreed' if side == 'buy' else 'reject_sell_agreed')
            raise Stop()
        if must_reject and not band:
            key2 = 'oversell_accepted' if side == 'sell' else 'overspend_accepted'
            if side == 'sell' and cancelled_sell[sym]:
                key2 += '_after_cancel'
            v(key2, f'{side} {typ} {qty}@{price} exceeds the {"free quote" if side == "buy" else "base held minus resting sells"} '
                    f'by {slack:.6g} but was accepted (base {mdl.base[sym]}, resting '
                    f'{[(o2[2], o2[3]) for o2 in mdl.resting.values() if o2[0] == sym and o2[1] == "sell"]})')
        if band:
            c('dont_care')
        if -0.01 * scale <= slack <= 0:
            c('near_threshold_accepts')
        mdl.submit(key, sym, side, typ, qty, price)
        live[key] = o
        compare(f'after submit #{key}')
        return key

    def do_fill(key):
        o = live.pop(key)
        hist.append(['execute', key])
        held_before = float(mdl.base[o.symbol])
        w.execute(o)
        mdl.fill(key, o.symbol, o.side, o.type, o.qty, o.price)
        c('fills')
        c(f'fill:{o.side}:{o.type}')
        # balances are doubles: the account's product qty x (1 - fee) may differ from the exact one in the last place. Within
        # 4 ulp of the amounts involved the model takes the account's double, so that `sold everything` means the same thing
        # on both sides (what is cancelled at a close follows the account's position, which the stub strategy reads)
        sut_base = Decimal(repr(float(exch.assets[jh.base_asset(o.symbol)])))
        if sut_base != mdl.base[o.symbol] and abs(float(sut_base - mdl.base[o.symbol])) <= 4 * math.ulp(
                max(held_before, abs(float(o.qty)), float(sut_base), 1e-300)):
            mdl.base[o.symbol] = sut_base
            c('model_base_synchronised_within_4ulp')
        if w.pos[o.symbol].is_close:
            for k2 in [k2 for k2, o2 in live.items() if o2.symbol == o.symbol]:
                mdl.cancel(k2)
                if live[k2].side == 'sell':
                    cancelled_sell[o.symbol] += 1
                live.pop(k2)
            if w.pos[o.symbol].is_close:
                mdl.base[o.symbol] = Decimal(repr(float(exch.assets[jh.base_asset(o.symbol)])))   # drop model dust
        compare(f'after execute #{key}')

    def do_cancel(key):
        o = live.pop(key)
        hist.append(['cancel', key])
        if o.side == 'sell':
            cancelled_sell[o.symbol] += 1
        w.cancel(o)
        mdl.cancel(key)
        compare(f'after cancel #{key}')
        dead.append((key, o))

    def do_flush_dead():
        # what the queue of pending MARKET orders does with an order that was cancelled while it was still queued: execute()
        # is called on it once more - a cancelled order cannot fill in a cash account
        key, o = rng.choice(dead)
        hist.append(['execute_cancelled', key])
        w.execute(o)
        c('execute_calls_on_cancelled_orders')
        compare(f'after execute() on cancelled #{key}')

    def dq(x):
        # decimal quantities that are not exactly representable in binary
        dec = rng.choice([1, 2, 3, 4, 8])
        q = round(x, dec)
        return q if q > 0 else 10 ** -dec

    try:
        compare('initial')
        for step in range(job['length']):
            c('ops')
            sym = rng.choice(syms)
            cur = px[sym]
            base = float(mdl.base[sym])
            r = rng.random()
            mine = [k for k, o in live.items() if o.symbol == sym]
            if dead and rng.random() < 0.06:
                do_flush_dead()
            if rng.random() < 0.04:
                # a MARKET buy cancelled while still pending, then the queue is flushed
                k = do_submit(sym, 'buy', 'MARKET', dq(float(mdl.quote) * 0.05 / cur), cur, False)
                do_cancel(k)
                do_flush_dead()
                continue
            if r < 0.18:
                quote = float(mdl.quote)
                frac = rng.choice([0.05, 0.1, 0.3, 0.7, 0.999, 1.0, 1.001, 1.3])
                typ = rng.choice(['MARKET', 'LIMIT', 'STOP'])
                price = cur if typ == 'MARKET' else round(cur * (1 + rng.uniform(-0.03, 0.03)), 2)
                k = do_submit(sym, 'buy', typ, dq(quote * frac / price), price, False)
                if typ == 'MARKET':
                    do_fill(k)
            elif r < 0.21:
                # spend exactly the whole free quote balance (when that quantity is representable)
                price = float(rng.choice([1, 2, 4, 5, 10, 100]))
                q = mdl.quote / F(price)
                if q > 0 and F(float(q)) == q:
                    bump = rng.choice([0, 0, 1])
                    k = do_submit(sym, 'buy', 'LIMIT', float(q) + bump * 2.0 ** -20, price, False)
            elif r < 0.27:
                # many small buys
                for _ in range(rng.randint(2, 5)):
                    k = do_submit(sym, 'buy', 'MARKET', dq(float(mdl.quote) * 0.03 / cur), cur, False)
                    do_fill(k)
            elif r < 0.55 and w.pos[sym].qty > 0:
                typ = rng.choice(['MARKET', 'LIMIT', 'STOP', 'LIMIT', 'STOP'])
                kind = rng.random()
                held = w.pos[sym].qty
                if kind < 0.15 and float(mdl.committed(sym, 'LIMIT')) == 0:
                    typ = 'MARKET'
                rest = float(mdl.committed(sym, 'LIMIT' if typ == 'MARKET' else typ))
                free = held - rest
                dust = None
                if kind < 0.15 and typ == 'MARKET' and rest == 0:
                    # ALMOST the holding: the holding floored to the usual 8 (or 6 / 10) decimals; what stays behind is dust,
                    # but it is still held - and it is sold right afterwards
                    d_ = rng.choice([8, 8, 6, 10])
                    q = math.floor(held * 10 ** d_) / 10 ** d_
                    if 0 < q < held:
                        dust = True
                        c('near_holding_sells')
                    else:
                        q = held
                        c('exact_holding_sells')
                elif kind < 0.35:
                    q = held                     # the exact holding
                    c('exact_holding_sells')
                elif kind < 0.5 and free > 0:
                    q = float(Decimal(repr(held)) - Decimal(repr(rest)))    # exactly what is still free
                    c('exact_holding_sells')
                elif kind < 0.8:
                    q = dq(held * rng.uniform(0.1, 0.9))
                else:
                    q = dq(held * rng.uniform(1.0001, 1.5))
                price = cur if typ == 'MARKET' else round(cur * (1 + rng.uniform(-0.03, 0.03)), 2)
                if q > 0:
                    # non-reduce-only sells only as MARKET orders (the only kind the strategy layer can produce in spot)
                    k = do_submit(sym, 'sell', typ, q, price, typ != 'MARKET' or rng.random() < 0.6)
                    if typ == 'MARKET':
                        do_fill(k)
                    if dust:
                        left = float(exch.assets[jh.base_asset(sym)])
                        if w.pos[sym].qty != left:
                            v('position_size_differs_from_base_balance',
                              f'after selling {q} of {held}: position {w.pos[sym].qty!r}, base balance {left!r}')
                        if left > 0:
                            k2 = do_submit(sym, 'sell', 'MARKET', left, cur, rng.random() < 0.5)
                            do_fill(k2)
                            c('dust_sells')
            elif r < 0.62 and w.pos[sym].qty > 0:
                # several resting sells of one kind that add up exactly (in decimal) to what is still free
                typ = rng.choice(['LIMIT', 'STOP'])
                held = Decimal(repr(float(w.pos[sym].qty))) - mdl.committed(sym, typ)
                nparts = rng.choice([2, 3, 4])
                # (only when the holding has few enough digits for decimal-on-repr arithmetic to be exact)
                if held > 0 and len(held.as_tuple().digits) <= 12:
                    unit = Decimal(1).scaleb(-rng.choice([1, 2, 3]))
                    parts, left = [], held
                    for _ in range(nparts - 1):
                        p_ = (held * Decimal(repr(round(rng.uniform(0.1, 0.4), 3)))).quantize(unit)
                        if 0 < p_ < left:
                            parts.append(p_)
                            left -= p_
                    parts.append(left)
                    c('exact_split_sells')
                    for p_ in parts:
                        do_submit(sym, 'sell', typ, float(p_), round(cur * (1 + rng.uniform(0.01, 0.03)), 2), True)
            elif r < 0.68 and w.pos[sym].qty > 0:
                # cancel-then-bigger-sell pattern
                typ = rng.choice(['LIMIT', 'STOP'])
                held = w.pos[sym].qty
                q1 = dq(held * rng.uniform(0.2, 0.6))
                k = do_submit(sym, 'sell', typ, q1, round(cur * 1.02, 2), True)
                do_cancel(k)
                q2 = dq(held * rng.uniform(0.9, 1.6))
                do_submit(sym, 'sell', typ, q2, round(cur * 1.02, 2), True)
            elif r < 0.82 and mine:
                do_fill(rng.choice(mine))
            elif r < 0.92 and mine:
                do_cancel(rng.choice(mine))
            elif r < 0.97:
                before = exch.assets['USDT']
                k = do_submit(sym, 'buy', rng.choice(['LIMIT', 'STOP']), dq(float(mdl.quote) * 0.2 / cur), round(cur * 0.99, 2),
                              False)
                do_cancel(k)
                c('cancel_round_trips')
                if not models.close_enough(exch.assets['USDT'], before, 1e-12):
                    v('quote_not_restored_by_cancel', f'quote {before} -> submit buy -> cancel -> {exch.assets["USDT"]}')
            else:
                px[sym] = round(cur * (1 + rng.gauss(0, 0.02)), 2) or cur
                w.move(sym, px[sym])
    except Stop:
        pass
    except Exception as ex:
        import traceback
        viol.append({'key': f'operation_raised:{type(ex).__name__}', 'msg': f'{ex!r}',
                     'witness': {'config': cfg, 'symbols': syms, 'history': list(hist),
                                 'tb': traceback.format_exc()[-1200:]}})
    finally:
        w.close()
    sig = repr((fee > 0, nsym, tuple((h[0],) + tuple(h[3:5]) if h[0] == 'submit' else (h[0],) for h in hist)))
    res = {'viol': viol, 'cnt': cnt, 'sigs': [sig] if cnt.get('fills') else []}
    if job['i'] < 3:
        res['sample'] = {'config': cfg, 'symbols': syms, 'history_head': hist[:20]}
    return res


def _session(job):
    import random as _r
    from .. import session, specgen, shadow
    rng = _r.Random(job['seed'])
    spec = specgen.random_session(rng, minutes=rng.choice([300, 500, 800]), exch_type='spot', nsym=rng.choice([1, 1, 2]))
    for r in spec['routes']:
        r['script']['observe'] = 'light'
    out = session.run_session(spec, snapshots=True)
    syms = [r['symbol'] for r in spec['routes']]
    viol, cnt = shadow.run_spot(out['events'], spec['config'], syms)
    cnt['sessions'] = 1
    for x in viol:
        x['key'] = 'session:' + x['key']
        x['witness']['spec'] = spec
    return {'viol': viol, 'cnt': cnt, 'sigs': []}


def run_job(job):
    if job.get('kind') == 'session':
        return _session(job)
    out = {'viol': [], 'cnt': {}, 'sigs': [], 'sample': None}
    for sub in job['batch']:
        r = _history(sub)
        out['viol'].extend(r['viol'][:2])
        for k, n in r['cnt'].items():
            out['cnt'][k] = out['cnt'].get(k, 0) + n
        out['sigs'].extend(r['sigs'])
        if r.get('sample') and out['sample'] is None:
            out['sample'] = r['sample']
    seen, vv = set(), []
    for x in out['viol']:
        if x['key'] not in seen:
            seen.add(x['key'])
            vv.append(x)
    out['viol'] = vv
    return out


def make_jobs(tier, seed):
    rng = random.Random(40000 + seed)
    n = 3000 if tier == 'quick' else 700000
    subs = [{'seed': rng.randrange(1 << 30), 'i': i, 'length': rng.choice([8, 15, 30, 60])} for i in range(n)]
    B = 25
    jobs = [{'kind': 'batch', 'batch': subs[i:i + B]} for i in range(0, n, B)]
    # the same shadow account inside real backtest sessions (real strategy layer, both simulators)
    jobs += [{'kind': 'session', 'seed': rng.randrange(1 << 30)} for _ in range(120 if tier == 'quick' else 8000)]
    return jobs
