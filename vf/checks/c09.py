"""C09 - isolated-margin liquidation happens exactly at the liquidation price.

Offline trace checker over steered sessions: the script enters with a market order at a planned candle, so the entry
price and hence the reference liquidation level are known when the candles are generated; the following candles
approach / touch / overshoot / jump over the level (one-ulp variants). At every end of matching (the liquidation
check of every minute / chunk) the monitor decides from the position snapshot and the harness's own candle range
whether a forced close must or must not happen, and checks its form and its effect on the wallet.
"""
import math
import random

import numpy as np

from .. import gen, session

PROP = 'C09'
RULE = ('steered sessions: leverage {1,2,3,5,10,25,50,100,125} x long/short x single/averaged entry x approach pattern '
        '{near miss, one ulp short, exact touch, one ulp beyond, overshoot, jump over by a gap} x with/without protective stop '
        'x deciding candle closes {half way, back in profit (wick and recover), at the extreme} x normal/fast simulator x isolated (and cross / spot controls). distinct = distinct (leverage, side, pattern, stop, '
        'simulator, mode, averaged); non-trivial = the deciding candle was reached with an open position or a liquidation happened.')
ASSUMPTIONS = ['reference prices: long liq = entry*(1 - 1/L + 0.004), bankruptcy = entry*(1 - 1/L); short mirrored, evaluated in '
               'the same floating-point order as documented',
               'range of a minute = open-normalised input candle; of a chunk = union of its minutes']
MIN_OBS = {'liquidation_checks_with_open_position': 3000, 'liquidations': 150, 'near_misses': 60, 'exact_touches': 40,
           'protective_stop_wins': 40, 'control_sessions': 100, 'one_ulp_cases': 60,
           'liquidation_checks_on_reentered_position': 300, 'sessions_with_a_second_candle_series': 200, 'liquidations_of_all_in_positions': 10}
LEVS = [1, 2, 3, 5, 10, 25, 50, 100, 125]
PATTERNS = ['near_miss', 'ulp_short', 'touch', 'ulp_beyond', 'overshoot', 'gap_jump']


def ref_prices(entry, lev, side):
    imr = 1 / lev
    if side == 'long':
        return entry * (1 - imr + 0.004), entry * (1 - imr)
    return entry * (1 + imr - 0.004), entry * (1 + imr)


def build(job):
    rng = random.Random(job['seed'])
    lev, side, pattern = job['lev'], job['side'], job['pattern']
    tf = job['tf']
    k = gen.TF_MIN[tf]
    m_idx = rng.randint(2, 6)                 # strategy index of the entry
    m = k * (m_idx + 1) - 1                   # minute index whose close is the entry price
    n_pre = m + 1
    base = gen.candles({'seed': rng.randrange(1 << 30), 'n': n_pre, 'start': rng.choice([100.0, 250.0, 31.5]),
                        'vol': 0.0005})
    entry = float(base[m, 2])
    q1 = round(0.2 * 10000 * lev / entry, 3)
    if job.get('all_in') and not job['averaged'] and not job.get('reentry'):
        # nearly the whole wallet backs the position: at a forced close the margin plus the closing fee exceed what is left
        # after the entry fee (the wallet goes below zero - the loss is still initial margin plus fees)
        q1 = math.floor(0.999 * 10000 * lev / entry * 1000) / 1000
    rows = [r for r in base]
    avg = job['averaged']
    entry_eff = entry
    enter_at = [m_idx]
    if avg:
        # second market entry one strategy step later at a slightly different price
        for j in range(k):
            c_prev = rows[-1][2]
            c_new = c_prev * (1 + (0.0004 if side == 'short' else -0.0004))
            rows.append(np.array([0, c_prev, c_new, max(c_prev, c_new), min(c_prev, c_new), 5.0]))
        p2 = float(rows[-1][2])
        enter_at.append(m_idx + 1)
        entry_eff = (abs(q1) * p2 + abs(q1) * entry) / (abs(q1) + abs(q1))
    liq, bankr = ref_prices(entry_eff, lev, side)
    sign = -1 if side == 'long' else 1         # direction of the losing move
    if job.get('wick_gap') and not avg and lev > 1:
        # the candle at whose close the position is opened had wicked beyond the liquidation level BEFORE the entry, and the
        # next candle gaps away on the favourable side: its range (extended to the previous CLOSE) does not contain the level
        wick = liq * (1 + sign * 0.001)
        if side == 'long':
            rows[m][4] = min(rows[m][4], wick)
        else:
            rows[m][3] = max(rows[m][3], wick)
        o_ = entry * (1 - sign * 0.002)
        c_ = o_ * (1 - sign * 0.0002)
        rows.append(np.array([0, o_, c_, max(o_, c_), min(o_, c_), 4.0]))
    # approach: a few calm candles drifting part of the way
    cur = float(rows[-1][2])
    steps = rng.randint(2, 5)
    if job.get('reentry') and rng.random() < 0.5:
        steps = 0                       # the deciding candle is the first one the re-entered position lives through
    target_pre = liq - sign * abs(liq - cur) * 0.5       # half way, still safe
    for j in range(steps):
        nxt = cur + (target_pre - cur) * (j + 1) / steps
        hi, lo = max(cur, nxt), min(cur, nxt)
        rows.append(np.array([0, cur, nxt, hi, lo, 3.0]))
        cur = nxt
    # the deciding candle
    def ext(level):
        return level

    if pattern == 'near_miss':
        extreme = liq - sign * abs(liq) * 0.0007
        extreme = extreme if sign < 0 else extreme
        # near miss: stays on the safe side by 0.07 %
        extreme = liq * (1 + 0.0007) if side == 'long' else liq * (1 - 0.0007)
    elif pattern == 'ulp_short':
        extreme = float(np.nextafter(liq, math.inf if side == 'long' else -math.inf))
    elif pattern == 'touch':
        extreme = liq
    elif pattern == 'ulp_beyond':
        extreme = float(np.nextafter(liq, -math.inf if side == 'long' else math.inf))
    elif pattern == 'overshoot':
        extreme = liq * (1 - 0.002) if side == 'long' else liq * (1 + 0.002)
    else:
        extreme = None
    if pattern == 'gap_jump':
        # this candle stays safe; the next one opens beyond the level (gap) and never trades back
        beyond = liq * (1 - 0.004) if side == 'long' else liq * (1 + 0.004)
        rows.append(np.array([0, cur, cur, cur, cur, 1.0]))
        o2 = beyond
        c2 = beyond * (1 - 0.0005) if side == 'long' else beyond * (1 + 0.0005)
        rows.append(np.array([0, o2, c2, max(o2, c2), min(o2, c2), 9.0]))
        cur = c2
    else:
        close = cur + (extreme - cur) * 0.5
        if job.get('close_mode') == 'recover_profit':
            # wick to the extreme, but the minute closes on the winning side of the entry price
            close = entry_eff * (1.002 if side == 'long' else 0.998)
        elif job.get('close_mode') == 'at_extreme':
            close = extreme
        if side == 'long':
            rows.append(np.array([0, cur, close, max(cur, close), extreme, 7.0]))
        else:
            rows.append(np.array([0, cur, close, extreme, min(cur, close), 7.0]))
        cur = close
    # tail: drift back to safety
    for j in range(k * 3 + 3):
        nxt = cur * (1 + (0.0006 if side == 'long' else -0.0006))
        rows.append(np.array([0, cur, nxt, max(cur, nxt), min(cur, nxt), 2.0]))
        cur = nxt
    # pad to a multiple of the timeframe
    while len(rows) % k:
        rows.append(np.array([0, cur, cur, cur, cur, 0.0]))
    arr = np.array(rows, dtype=float)
    arr[:, 0] = gen.T0 + np.arange(len(arr)) * 60000
    script = {'seed': 3, 'enter_at': enter_at if not avg else [m_idx], 'enter_side': side, 'sides': 'both',
              'entry': 'market', 'fixed_qty': q1, 'exits_in': 'open', 'observe': 'light',
              'sl': None, 'tp': None, 'cancel_policy': 'never', 'p_update': 0.0}
    if avg:
        script['add_at'] = [m_idx + 1]
    if job.get('reentry'):
        # not the first trade of the session: an earlier position (opened one bar before) is closed at market in the entry
        # bar and the strategy re-enters in that same bar, so the judged position lives on an object that has been closed once
        script['enter_at'] = [m_idx - 1, m_idx]
        script['close_at'] = [m_idx]
    if job['stop']:
        script['sl'] = 0.5 * (1 / lev - 0.004) if lev > 1 else 0.4
    if job.get('partial_tp') and job.get('close_mode') == 'recover_profit' and pattern != 'gap_jump' and job.get('mode') != 'spot':
        # the deciding minute first wicks to the liquidation level and then recovers through a take-profit for half of the
        # position (close = entry +-0.2 %, rows at +-0.15 % and +-0.225 %): the position is still open after the matching and
        # the minute's range contains the liquidation price, although the rest of the minute after the fill does not
        script['tp'], script['tp_points'] = 0.0015, 2
        if job.get('callback_market'):
            # the callback of that partial fill submits a MARKET order (scale-in) in the same minute
            script['on_reduced'] = 'add_market'
    elif job.get('resting_tps') and job.get('mode') != 'spot':   # (a spot holding of 17 digits cannot be split into exact rows)
        # a ladder of take-profits far on the winning side: they rest (and must be cancelled) while the position is liquidated
        script['tp'], script['tp_points'] = 0.2, job['resting_tps']
    return arr, script, {'entry': entry_eff, 'liq': liq, 'bankr': bankr, 'q1': q1}


def run_job(job):
    arr, script, info = build(job)
    mode = job['mode']
    cfg = {'starting_balance': 10000, 'fee': job['fee'], 'type': 'futures', 'futures_leverage': job['lev'],
           'futures_leverage_mode': mode}
    if mode == 'spot':
        cfg = {'starting_balance': 10000, 'fee': job['fee'], 'type': 'spot'}
        if job['side'] == 'short':
            return {'viol': [], 'cnt': {}, 'sigs': []}
        script['fixed_qty'] = round(0.2 * 10000 / info['entry'], 3)
    spec = {'config': cfg, 'routes': [{'symbol': 'BTC-USDT', 'timeframe': job['tf'], 'script': script}],
            'data_routes': [], 'candles': {}, 'warmup': 0, 'fast': job['fast']}
    cands = {'BTC-USDT': arr}
    if job.get('extra_series'):
        # a second candle series in the session (a data route on another symbol, quietly trading elsewhere): the liquidation
        # check belongs to every series, whichever is processed last
        other = arr.copy()
        other[:, 1:5] = 50.0 + 0.01 * np.arange(len(arr))[:, None]
        spec['data_routes'] = [{'symbol': job['extra_series'], 'timeframe': job['tf']}]
        cands[job['extra_series']] = other
    out = session.run_session(spec, candles=cands)
    viol, cnt = check_trace(out['events'], arr, cfg, job)
    if out['error']:
        cnt['sessions_aborted:' + out['error']['type']] = 1
        viol.append({'key': 'session_raised:' + out['error']['type'], 'msg': out['error']['msg'],
                     'witness': {'tb': out['error']['tb']}})
    for x in viol:
        x['witness'].update(job=job, info=info, candles_tail=arr[-12:].tolist())
    cnt['sessions'] = 1
    if job.get('extra_series'):
        cnt['sessions_with_a_second_candle_series'] = 1
    if mode != 'isolated':
        cnt['control_sessions'] = 1
    sig = repr((job['lev'], job['side'], job['pattern'], job['stop'], job['fast'], mode, job['averaged'], job['tf'],
                job.get('close_mode')))
    res = {'viol': viol, 'cnt': cnt,
           'sigs': [sig] if cnt.get('liquidation_checks_with_open_position') or cnt.get('liquidations') else []}
    if job['i'] < 3:
        res['sample'] = {'job': job, 'info': info, 'liquidations': cnt.get('liquidations', 0)}
    return res


def check_trace(events, arr, cfg, job):
    viol, cnt = [], {}

    def c(k, n=1):
        cnt[k] = cnt.get(k, 0) + n

    def v(key, msg, **w):
        viol.append({'key': key, 'msg': msg, 'witness': w})

    norm = gen.normalise(arr)
    idx = {int(t): i for i, t in enumerate(arr[:, 0])}
    lev = cfg.get('futures_leverage', 1)
    mode = cfg.get('futures_leverage_mode', 'spot') if cfg['type'] == 'futures' else 'spot'
    fee = cfg['fee']
    cur = None
    in_liq_orders = []
    n_closed = 0
    liq_done = {}          # symbol -> the liquidation check of the minute / chunk in progress has already run
    awaiting = {}          # symbol -> trace position of its last matched minute / chunk that has not been checked yet
    for e in events:
        k = e['k']
        if k == 'trade_closed':
            n_closed += 1
        # the check belongs AFTER the matching of the minute / chunk: no order of that symbol is filled in the same minute /
        # chunk once its liquidation check has run (the forced close itself is filled inside the check; MARKET orders of the
        # strategy step that follows are not resting orders)
        if k in ('match_enter', 'mmatch_enter'):
            # every matched minute / chunk of a symbol is followed by that symbol's liquidation check before its next one is
            # matched (whatever other candle series the session carries)
            if awaiting.get(e.get('symbol')):
                v('minute_matched_without_a_liquidation_check_for_its_symbol',
                  f'{e.get("symbol")}: the minute / chunk matched at trace event {awaiting[e.get("symbol")]} was not followed by a '
                  f'liquidation check of that symbol')
            awaiting[e.get('symbol')] = e['seq']
            c('matched_minutes_paired_with_a_liquidation_check')
            liq_done[e.get('symbol')] = False
        elif k == 'exec_ret' and cur is None and e.get('status') == 'EXECUTED' and e.get('type') != 'MARKET' \
                and liq_done.get(e.get('symbol')):
            v('order_filled_after_the_liquidation_check_of_its_minute',
              f'{e.get("type")} order of {e.get("symbol")} executed at {e.get("executed_at")} after the liquidation check of the '
              f'same minute / chunk had already run', order=e.get('o'))
        if k == 'liq_enter':
            awaiting[e.get('symbol')] = None
            cur = {'enter': e, 'submits': [], 'execs': []}
        elif cur is not None and k == 'submit':
            cur['submits'].append(e)
        elif cur is not None and k == 'exec_ret':
            cur['execs'].append(e)
        elif k == 'liq_exit' and cur is not None:
            ent, ex = cur['enter'], e
            liq_done[e.get('symbol')] = True
            c('liquidation_checks_followed_for_later_fills')
            pos = ent['pos'] or {}
            qty = pos.get('qty') or 0
            forced = [s for s in cur['submits'] if s.get('in_liq')]
            # candle range from the harness's own data
            cts = int(ent['c'][0])
            i0 = idx.get(cts)
            if i0 is None:
                cur = None
                continue
            if job['fast']:
                kk = gen.TF_MIN[job['tf']]
                rows = norm[i0:i0 + kk]
            else:
                rows = norm[i0:i0 + 1]
            lo, hi = float(rows[:, 4].min()), float(rows[:, 3].max())
            if qty != 0:
                c('liquidation_checks_with_open_position')
                if job.get('reentry') and n_closed > 0:
                    c('liquidation_checks_on_reentered_position')
                side = 'long' if qty > 0 else 'short'
                liq, bankr = ref_prices(pos['entry'], lev, side)
                must = mode == 'isolated' and lo <= liq <= hi
                # classification of the distance for the evidence
                edge = lo if side == 'long' else hi
                rel = abs(edge - liq) / abs(liq)
                if mode == 'isolated':
                    if edge == liq:
                        c('exact_touches')
                    elif rel < 1e-12:
                        c('one_ulp_cases')
                    elif not must and rel < 0.001:
                        c('near_misses')
                    if 'liq_price' in ent and not (ent['liq_price'] == liq and ent['bankr'] == bankr):
                        v('liquidation_price_formula_differs',
                          f'position reports liquidation {ent["liq_price"]} / bankruptcy {ent["bankr"]}, reference '
                          f'{liq} / {bankr} (entry {pos["entry"]}, leverage {lev}, {side})')
                    if lev > 1:
                        between = (bankr < liq < pos['entry']) if side == 'long' else (pos['entry'] < liq < bankr)
                        if not between:
                            v('liquidation_price_not_between_entry_and_bankruptcy',
                              f'entry {pos["entry"]} liq {liq} bankruptcy {bankr} ({side}, L{lev})')
                if must and not forced:
                    v('no_forced_close_although_range_contains_liquidation_price',
                      f'{side} position {qty}@{pos["entry"]} L{lev}: range [{lo}, {hi}] of {cts} contains the liquidation price '
                      f'{liq} but the position was not force-closed', candle=ent['c'])
                elif not must and forced:
                    key = 'forced_close_outside_isolated_mode' if mode != 'isolated' else 'forced_close_although_price_not_reached'
                    v(key, f'{mode}: {side} position {qty}@{pos["entry"]} L{lev} force-closed although range [{lo}, {hi}] '
                           f'does not contain {liq}', candle=ent['c'])
                elif must and forced:
                    c('liquidations')
                    if job.get('all_in') and not job['averaged'] and not job.get('reentry') and fee > 0:
                        c('liquidations_of_all_in_positions')
                    if len(forced) != 1:
                        v('more_than_one_liquidation_order', f'{len(forced)} liquidation orders')
                    f = forced[0]
                    okform = f['type'] == 'MARKET' and f['reduce_only'] is True and f['qty'] == -qty and f['price'] == bankr
                    if not okform:
                        v('liquidation_order_malformed',
                          f'liquidation order {f["type"]} reduce_only={f["reduce_only"]} qty={f["qty"]} price={f["price"]}; '
                          f'expected reduce-only MARKET {-qty} @ bankruptcy {bankr}')
                    if not any(x['o'] == f['o'] and x['status'] == 'EXECUTED' for x in cur['execs']):
                        v('liquidation_order_not_executed', 'the liquidation order was not executed at once')
                    if (ex.get('pos') or {}).get('qty') != 0:
                        v('position_open_after_liquidation', f'position after the forced close: {ex.get("pos")}')
                    if ex.get('liq_total', 0) - ent.get('liq_total', 0) != 1:
                        v('liquidation_counter_not_incremented_once',
                          f'liquidation counter {ent.get("liq_total")} -> {ex.get("liq_total")}')
                    if ex.get('active', 0) != 0:
                        v('resting_orders_active_after_liquidation', f'{ex.get("active")} orders still active')
                    if 'wallet' in ent and 'wallet' in ex:
                        exp = -abs(qty) * pos['entry'] / lev - abs(qty) * bankr * fee
                        got = ex['wallet'] - ent['wallet']
                        if abs(got - exp) > 1e-9 * max(1.0, abs(exp), abs(ent['wallet'])):
                            v('liquidation_loss_differs_from_initial_margin_plus_fee',
                              f'wallet changed by {got}, expected -(|q| entry / L) - fee = {exp}')
            else:
                if forced:
                    v('forced_close_without_open_position', f'liquidation order submitted while the position was closed')
                if job.get('stop') and ent.get('active') is not None:
                    pass
            cur = None
    # protective stop wins: the deciding candle crossed both the stop and the level, the stop closed the position first
    if job.get('stop') and mode == 'isolated' and job['pattern'] in ('overshoot', 'ulp_beyond', 'touch', 'gap_jump'):
        stops = [e for e in events if e['k'] == 'exec_ret' and e['type'] == 'STOP' and e['status'] == 'EXECUTED']
        if stops and not cnt.get('liquidations'):
            c('protective_stop_wins')
    return viol, cnt


def make_jobs(tier, seed):
    rng = random.Random(90000 + seed)
    jobs = []
    i = 0
    combos = []
    for lev in LEVS:
        for side in ('long', 'short'):
            for pattern in PATTERNS:
                for stop in (False, True):
                    for fast in (False, True):
                        combos.append((lev, side, pattern, stop, fast))
    reps = 3 if tier == 'quick' else 450
    for rep in range(reps):
        for lev, side, pattern, stop, fast in combos:
            mode = 'isolated'
            r = rng.random()
            if r < 0.12:
                mode = 'cross'
            elif r < 0.18:
                mode = 'spot'
            jobs.append({'kind': 's', 'seed': rng.randrange(1 << 30), 'i': i, 'lev': lev, 'side': side, 'pattern': pattern,
                         'stop': stop, 'fast': fast, 'mode': mode, 'averaged': rng.random() < 0.3,
                         'tf': rng.choice(['1m', '1m', '5m']), 'fee': rng.choice([0, 0.0005, 0.001]),
                         'close_mode': rng.choice(['half', 'half', 'recover_profit', 'at_extreme']),
                         'resting_tps': rng.choice([0, 0, 3, 4]), 'partial_tp': rng.random() < 0.5, 'callback_market': rng.random() < 0.5, 'wick_gap': rng.random() < 0.3,
                         'reentry': rng.random() < 0.35, 'extra_series': rng.choice([None, None, 'ETH-USDT', 'SOL-USDT']),
                         'all_in': rng.random() < 0.2})
            i += 1
    return jobs
