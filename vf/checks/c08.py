"""C08 - fills inside one minute follow a single continuous price path; split_candle keeps O/H/L/C.

Part A: the real step simulator is run on two-minute sessions whose second candle, previous close, resting entry
        orders and reaction order are enumerated on a 5-level price lattice (bounded-exhaustive in the thorough tier,
        a seeded sample in the quick tier) plus random real-valued sessions; the offline path checker (vf/pathmon.py)
        judges every fill and every end of minute.
Part B: split_candle on every valid candle x every in-range price of a 7-level lattice (half steps included) and on
        random real-valued candles.
"""
import hashlib
import itertools
import random

import numpy as np

from .. import gen, pathmon, session, specgen

PROP = 'C08'
RULE = ('Part A: arrangements (previous close, O, H, L, C, <=3 resting entry order prices, reaction order level, side) on a '
        '5-level lattice executed by the real step simulator, judged by the polyline path model; Part B: split_candle on all '
        'valid lattice candles x in-range prices. distinct = distinct ordinal arrangement (relative order incl. ties of '
        'previous close, O, H, L, C and the order prices); non-trivial = at least one resting order filled (A) / price != open (B).')
ASSUMPTIONS = ['reference path: O-L-H-C for close >= open, O-H-L-C otherwise, on the open-normalised candle',
               'lattice prices 101..105 (1 % apart) so that no order falls into the 0.015 % market band by accident']
MIN_OBS = {'cases_with_market_close_from_the_fill_callback': 100, 'cases_with_tied_entry_rows': 500, 'partA_sessions': 3000, 'resting_fills': 3000, 'reaction_order_fills_same_minute': 200,
           'minute_end_evals_with_resting': 2000, 'split_cases': 5000, 'split_random_cases': 2000}
EXHAUSTIVE_NOTE = ('thorough tier: Part A enumerates all 105 valid candles x 5 previous closes x 26 order sets x 6 reactions x 2 '
                   'sides on the 5-level lattice; Part B enumerates all valid candles x prices on the 7-level lattice in both tiers')
LEVELS = [101.0, 102.0, 103.0, 104.0, 105.0]


def _valid_candles(levels):
    out = []
    for o in levels:
        for c in levels:
            for h in levels:
                for l in levels:
                    if l <= min(o, c) and h >= max(o, c):
                        out.append((o, c, h, l))
    return out


def _arrangements():
    cands = _valid_candles(LEVELS)
    sets = [()]
    for k in (1, 2, 3):
        sets += list(itertools.combinations(LEVELS, k))
    reactions = [None] + LEVELS
    for side in ('long', 'short'):
        for pc in LEVELS:
            for cd in cands:
                for st in sets:
                    if not st:
                        continue
                    for r in reactions:
                        yield side, pc, cd, st, r


def make_jobs(tier, seed):
    jobs = []
    arr = list(_arrangements())
    if tier == 'quick':
        rng = random.Random(800 + seed)
        arr = rng.sample(arr, 9000)
    B = 250
    for i in range(0, len(arr), B):
        jobs.append({'kind': 'A', 'cases': arr[i:i + B], 'want_sample': i == 0})
    rng = random.Random(900 + seed)
    for i in range(60 if tier == 'quick' else 1200):
        jobs.append({'kind': 'Arand', 'seed': rng.randrange(1 << 30)})
    jobs.append({'kind': 'B'})
    for i in range(4 if tier == 'quick' else 64):
        jobs.append({'kind': 'Brand', 'seed': rng.randrange(1 << 30), 'n': 3000})
    return jobs


def _lattice_strategy(side, rows, reaction, close_reaction=None):
    from jesse.strategies import Strategy

    class Lattice(Strategy):
        def should_long(self):
            return side == 'long' and self.index == 0

        def should_short(self):
            return side == 'short' and self.index == 0

        def should_cancel_entry(self):
            return False

        def go_long(self):
            self.buy = [(1.0, p) for p in rows]

        def go_short(self):
            self.sell = [(1.0, p) for p in rows]

        def on_open_position(self, order):
            if reaction == 'liquidate':
                # close at the market from inside the callback of the opening fill (the other entry rows still rest)
                self.liquidate()
                return
            if reaction is None:
                return
            e = self.position.entry_price
            if reaction == e:
                return
            better = (reaction > e) if self.is_long else (reaction < e)
            if better:
                self.take_profit = (abs(self.position.qty), reaction)
            else:
                self.stop_loss = (abs(self.position.qty), reaction)

        def on_close_position(self, order):
            # a second-level reaction: a fresh resting order placed through the broker from the callback of the CLOSING fill
            # (the order books of the symbol have just been reset by the strategy layer)
            if close_reaction is None:
                return
            px = self.price
            if close_reaction < px:
                self.broker.buy_at(1.0, close_reaction)
            elif close_reaction > px:
                self.broker.sell_at(1.0, close_reaction)

    return Lattice


def _ordinal(vals):
    s = sorted(set(vals))
    return tuple(s.index(v) for v in vals)


def _run_A(job):
    viol, cnt, sigs = [], {}, []
    sample = None
    for ci, (side, pc, (o, c, h, l), rows, reaction) in enumerate(job['cases']):
        rows = [p for p in rows if p != pc]      # a row at the current price would be a market order, not a resting one
        if not rows:
            continue
        # every third case with an exit also places an order from on_close_position (level derived from the case)
        close_reaction = None
        if reaction is not None and ci % 3 == 0:
            close_reaction = LEVELS[(ci // 3 + int(o) + int(h)) % len(LEVELS)]
            cnt['cases_with_close_reaction'] = cnt.get('cases_with_close_reaction', 0) + 1
        if ci % 9 == 5 and len(rows) >= 2:
            reaction = 'liquidate'
            close_reaction = None
            cnt['cases_with_market_close_from_the_fill_callback'] = cnt.get('cases_with_market_close_from_the_fill_callback', 0) + 1
        if ci % 4 == 1:
            # two entry rows at the SAME price: the second one fills exactly at the open of what is left of the minute after
            # the first fill (a split at the open), before the reaction order placed by the first fill's callback
            rows = list(rows) + [rows[ci % len(rows)]]
            cnt['cases_with_tied_entry_rows'] = cnt.get('cases_with_tied_entry_rows', 0) + 1
        t0 = gen.T0
        cs = np.array([[t0, pc, pc, pc, pc, 1.0], [t0 + 60000, o, c, h, l, 1.0]])
        spec = {'config': {'starting_balance': 100000, 'fee': 0.0, 'type': 'futures', 'futures_leverage': 2,
                           'futures_leverage_mode': 'cross'},
                'routes': [{'symbol': 'BTC-USDT', 'timeframe': '1m',
                            'strategy': _lattice_strategy(side, rows, reaction, close_reaction)}],
                'data_routes': [], 'candles': {}, 'warmup': 0, 'fast': False}
        out = session.run_session(spec, candles={'BTC-USDT': cs}, snapshots=True)
        v, k = pathmon.check(out['events'], out['candles'], {}, False, aborted=out['error'] is not None)
        for kk, n in k.items():
            cnt[kk] = cnt.get(kk, 0) + n
        cnt['partA_sessions'] = cnt.get('partA_sessions', 0) + 1
        if out['error']:
            key = 'partA_session_error:' + out['error']['type']
            viol.append({'key': key, 'msg': out['error']['msg'],
                         'witness': {'side': side, 'prev_close': pc, 'candle': [o, c, h, l], 'rows': rows,
                                     'reaction': reaction, 'tb': out['error']['tb']}})
        for x in v:
            x['witness'].update({'side': side, 'prev_close': pc, 'candle_ochl': [o, c, h, l], 'rows': rows,
                                 'reaction': reaction})
        viol.extend(v[:3])
        if k.get('resting_fills'):
            sigs.append(repr((side, _ordinal([pc, o, h, l, c] + list(rows) + ([reaction] if isinstance(reaction, float) else [])),
                              reaction is not None)))
        if sample is None and job.get('want_sample') and k.get('resting_fills', 0) >= 2:
            sample = {'kind': 'A', 'side': side, 'prev_close': pc, 'candle_ochl': [o, c, h, l], 'entry_rows': rows,
                      'reaction_level': reaction,
                      'fills': [(e['type'], e['side'], e['price']) for e in out['events'] if e['k'] == 'exec_ret']}
    # keep one witness per mechanism
    seen, vv = set(), []
    for x in viol:
        if x['key'] not in seen:
            seen.add(x['key'])
            vv.append(x)
    return {'viol': vv, 'cnt': cnt, 'sigs': sigs, 'sample': sample}


def _run_Arand(job):
    rng = random.Random(job['seed'])
    spec = specgen.random_session(rng, minutes=rng.choice([240, 400]), fast=False, tfs=['1m', '1m', '3m'],
                                  family=rng.choice(['walk', 'gappy', 'lattice', 'lattice_gappy', 'flatty']))
    for r in spec['routes']:
        r['script']['entry'] = rng.choice(['ladder', 'mixed', 'limit'])
        r['script']['sl_points'] = rng.choice([1, 2, 3])
        r['script']['tp_points'] = rng.choice([1, 2, 3])
        r['script']['sl'] = r['script']['sl'] or 0.004
        r['script']['tp'] = r['script']['tp'] or 0.004
    out = session.run_session(spec)
    v, k = pathmon.check(out['events'], out['candles'], out['warm'], False, aborted=out['error'] is not None)
    for x in v:
        x['witness']['spec'] = spec
    k['partA_random_sessions'] = 1
    return {'viol': v[:5], 'cnt': k, 'sigs': []}


def _check_split(cd, price, split_candle, viol, cnt, sigs, tag):
    o, c, h, l = cd
    candle = np.array([1.0, o, c, h, l, 7.0])
    cnt['split_cases'] = cnt.get('split_cases', 0) + 1
    if tag == 'random':
        cnt['split_random_cases'] = cnt.get('split_random_cases', 0) + 1

    def bad(key, msg, res=None):
        viol.append({'key': key, 'msg': msg, 'witness': {'candle_ochl': [o, c, h, l], 'price': price,
                                                          'result': None if res is None else [list(map(float, r)) for r in res]}})

    try:
        res = split_candle(candle.copy(), price)
    except Exception as ex:
        return bad('split_raises', f'split_candle({cd}, {price}) raised {ex!r}')
    if res is None or len(res) != 2 or res[0] is None or res[1] is None:
        return bad('split_no_result', f'split_candle({cd}, {price}) returned {res!r} for an in-range price')
    e, la = res
    for name, x in (('earlier', e), ('later', la)):
        if not (x[4] <= x[1] <= x[3] and x[4] <= x[2] <= x[3]):
            return bad('split_invalid_part', f'{name} part {list(x)} of {cd} at {price} is not a valid candle', res)
    if e[1] != o:
        return bad('split_open_changed', f'earlier open {e[1]} != {o}', res)
    if la[2] != c:
        return bad('split_close_changed', f'later close {la[2]} != {c}', res)
    if max(e[3], la[3]) != h:
        return bad('split_high_lost', f'max high {max(e[3], la[3])} != {h} for {cd} at {price}', res)
    if min(e[4], la[4]) != l:
        return bad('split_low_lost', f'min low {min(e[4], la[4])} != {l} for {cd} at {price}', res)
    if price != o:
        if e[2] != price or la[1] != price:
            return bad('split_parts_do_not_meet', f'earlier close {e[2]} / later open {la[1]} != {price}', res)
        sigs.append(repr((tag, _ordinal([o, h, l, c, price]))) if tag == 'lattice' else None)


def _run_B(job):
    from jesse.services.candle import split_candle
    viol, cnt, sigs = [], {}, []
    levels = [float(x) for x in range(10, 17)]
    half = sorted(set(levels + [x + 0.5 for x in levels[:-1]]))
    for cd in _valid_candles(levels):
        for p in half:
            if cd[3] <= p <= cd[2]:
                _check_split(cd, p, split_candle, viol, cnt, sigs, 'lattice')
    seen, vv = set(), []
    for x in viol:
        if x['key'] not in seen:
            seen.add(x['key'])
            vv.append(x)
    return {'viol': vv, 'cnt': cnt, 'sigs': [s for s in sigs if s],
            'sample': {'kind': 'B', 'lattice_levels': levels, 'prices': 'levels and half steps', 'cases': cnt.get('split_cases')}}


def _run_Brand(job):
    from jesse.services.candle import split_candle
    rng = random.Random(job['seed'])
    viol, cnt, sigs = [], {}, []
    for _ in range(job['n']):
        o = rng.uniform(1, 1000) * rng.choice([1e-4, 1, 1, 1e3])
        c = o * (1 + rng.gauss(0, 0.01)) if rng.random() > 0.1 else o
        h = max(o, c) * (1 + abs(rng.gauss(0, 0.005))) if rng.random() > 0.15 else max(o, c)
        l = min(o, c) * (1 - abs(rng.gauss(0, 0.005))) if rng.random() > 0.15 else min(o, c)
        r = rng.random()
        if r < 0.6:
            p = rng.uniform(l, h)
        else:
            p = rng.choice([o, c, h, l, np.nextafter(l, h), np.nextafter(h, l), np.nextafter(o, h), np.nextafter(o, l),
                            np.nextafter(c, h), np.nextafter(c, l)])
        p = float(min(max(p, l), h))
        _check_split((o, c, h, l), p, split_candle, viol, cnt, sigs, 'random')
    seen, vv = set(), []
    for x in viol:
        if x['key'] not in seen:
            seen.add(x['key'])
            vv.append(x)
    return {'viol': vv, 'cnt': cnt, 'sigs': []}


def run_job(job):
    return {'A': _run_A, 'Arand': _run_Arand, 'B': _run_B, 'Brand': _run_Brand}[job['kind']](job)
