"""C03 - the futures account equals an average-cost margin account model.

Online shadow-model monitor: generated legal operation histories are applied to the real Order/Position/
FuturesExchange objects of a prepared store and, event by event, to AccountFutures (exact rationals). After every
operation wallet, position size/side, average entry, unrealised PnL and available margin are compared; every
submission decision (accept / InsufficientMargin) is compared with the model's threshold.
"""
import random
from fractions import Fraction as F

from .. import direct, models

PROP = 'C03'
RULE = ('legal operation histories (submit non-reduce / reduce-only MARKET/LIMIT/STOP, cancel, execute, price moves, '
        'submit-cancel round trips, twins) over 1-3 symbols on one wallet, leverage {1..125}, fee {0..0.01}, sized around the '
        'margin threshold; compared with the rational reference account after every operation. distinct = distinct sequence of '
        '(operation, effect) per history; non-trivial = >= 1 fill.')
ASSUMPTIONS = ['reduce-only orders are submitted only against an open position; everything resting on a symbol is cancelled when '
               'its position closes (done by the stub strategy, as the statement prescribes)',
               'money values compared with relative tolerance 1e-9; threshold decisions closer than 1e-9 relative to the '
               'threshold accept either outcome, exactly representable boundary cases are judged strictly']
MIN_OBS = {'session_state_comparisons': 3000, 'session_fills': 500, 'histories': 300, 'ops': 5000, 'eff:open': 200, 'eff:increase': 200, 'eff:reduce': 200, 'eff:close': 200,
           'eff:flip': 50, 'eff:oversize_close': 50, 'rejections_agreed': 100, 'near_threshold_accepts': 50,
           'exact_boundary_cases': 50, 'cancel_round_trips': 300, 'state_comparisons': 5000, 'histories_isolated_mode': 50}
SYMS = ['BTC-USDT', 'ETH-USDT', 'SOL-USDT']


class Stop(Exception):
    pass


def _history(job):
    rng = random.Random(job['seed'])
    nsym = rng.choice([1, 1, 2, 3])
    syms = SYMS[:nsym]
    dyadic = job['i'] % 4 == 3
    if dyadic:
        # every number is a small dyadic rational, so every float operation in the account code is exact and the
        # threshold comparison can be judged strictly (no tolerance band)
        lev = rng.choice([1, 2, 4, 8, 16, 64])
        fee = rng.choice([0, 2.0 ** -10])
        bal = rng.choice([1024, 4096, 65536])
        prices = {s: rng.choice([64.0, 128.0, 16.0, 0.5]) for s in syms}
    else:
        lev = rng.choice([1, 2, 3, 5, 10, 20, 50, 100, 125])
        fee = rng.choice([0, 0.0002, 0.001, 0.01])
        bal = rng.choice([1000, 10000, 100000])
        prices = {s: rng.choice([100.0, 50.0, 2000.0, 0.5]) for s in syms}

    def rprice(x, nd):
        if dyadic:
            return max(round(x * 8) / 8.0, 0.125)
        return max(round(x, nd), 0.0001)
    # (the account arithmetic of the statement is the same in both leverage modes; these histories drive the account without
    # the simulator, so nothing is force-closed in isolated mode)
    lmode = rng.choice(['cross', 'cross', 'isolated'])
    cfg = {'starting_balance': bal, 'fee': fee, 'type': 'futures', 'futures_leverage': lev,
           'futures_leverage_mode': lmode}
    w = direct.World(cfg, syms, prices=prices)
    mdl = models.AccountFutures(bal, lev, fee, syms)
    for s in syms:
        mdl.price[s] = prices[s]
    cnt, viol, hist = {'histories': 1, 'histories_isolated_mode': int(lmode == 'isolated')}, [], []
    live = {}     # key -> order
    exch = w.exchange
    from jesse.exceptions import InsufficientMargin

    def c(k, n=1):
        cnt[k] = cnt.get(k, 0) + n

    def v(key, msg):
        viol.append({'key': key, 'msg': msg, 'witness': {'config': cfg, 'symbols': syms, 'history': list(hist)}})
        raise Stop()

    peak = [float(bal)]

    def compare(tag):
        c('state_comparisons')
        peak[0] = max(peak[0], abs(float(exch.wallet_balance)), abs(float(mdl.wallet)))
        if abs(float(exch.wallet_balance) - float(mdl.wallet)) > 1e-9 * max(1.0, peak[0]):
            v('wallet_differs', f'{tag}: wallet {exch.wallet_balance} model {float(mdl.wallet)}')
        for s in syms:
            p = w.pos[s]
            if float(p.qty) != float(mdl.qty[s]):
                v('position_qty_differs', f'{tag}: {s} qty {p.qty} model {mdl.qty[s]}')
            if mdl.qty[s] != 0:
                if not models.close_enough(p.entry_price, mdl.entry[s]):
                    v('entry_price_differs', f'{tag}: {s} entry {p.entry_price} model {float(mdl.entry[s])}')
                side = 'long' if mdl.qty[s] > 0 else 'short'
                if p.type != side:
                    v('position_side_differs', f'{tag}: {s} type {p.type} model {side}')
                if not models.close_enough(p.pnl, mdl.upnl(s), 1e-9) and \
                        abs(float(p.pnl) - float(mdl.upnl(s))) > 1e-9 * abs(float(F(mdl.qty[s]) * mdl.entry[s])):
                    v('unrealised_pnl_differs', f'{tag}: {s} pnl {p.pnl} model {float(mdl.upnl(s))}')
            elif p.type != 'close':
                v('position_side_differs', f'{tag}: {s} type {p.type} model close')
        am, amm = exch.available_margin, mdl.available_margin()
        scale = max(1.0, abs(float(mdl.wallet)), sum(abs(float(F(mdl.qty[s]) * (mdl.entry[s] or 0))) for s in syms) / lev)
        if abs(float(am) - float(amm)) > 1e-9 * scale:
            v('available_margin_differs', f'{tag}: available margin {am} model {float(amm)}')

    def do_submit(sym, side, typ, qty, price, ro, exact=False):
        key = len(hist)
        hist.append(['submit', key, sym, side, typ, qty, price, ro])
        need = mdl.needs(qty, price)
        amm = mdl.available_margin()
        must_reject = (not ro) and need > amm
        slack = float(need - amm)
        scale = max(1.0, abs(float(amm)), float(need))
        if exact:
            # strict judgement only if the floats the account code compares carry the exact values
            exact = F(float(exch.available_margin)) == amm and F(abs(qty * price) / lev) == need
        band = (not exact) and abs(slack) <= 1e-9 * scale
        try:
            o = w.submit(sym, side, typ, qty, price, ro)
        except InsufficientMargin:
            if not must_reject and not band:
                v('rejected_although_margin_sufficient', f'order {qty}@{price} L{lev} needs {float(need)} available '
                                                         f'{float(amm)} (slack {slack:.3e}) was rejected')
            c('rejections_agreed')
            if band:
                c('dont_care')
            if exact:
                c('exact_boundary_cases')
            raise Stop()      # a rejected submission ends the sequence
        if must_reject and not band:
            v('accepted_although_margin_insufficient', f'order {qty}@{price} L{lev} needs {float(need)} available '
                                                       f'{float(amm)} (slack {slack:.3e}) was accepted')
        if band:
            c('dont_care')
        if exact:
            c('exact_boundary_cases')
        if not ro and -0.01 * scale <= slack <= 0:
            c('near_threshold_accepts')
        mdl.submit(key, sym, side, o.qty, price, ro)
        live[key] = o
        compare(f'after submit #{key}')
        return key

    def do_fill(key):
        o = live.pop(key)
        hist.append(['execute', key])
        w.execute(o)
        eff = mdl.fill(key, o.symbol, o.side, o.qty, o.price, o.reduce_only)
        c('eff:' + eff)
        c('fills')
        if mdl.qty[o.symbol] == 0:
            # the strategy layer cancels everything resting on the symbol when the position closes
            for k2 in [k2 for k2, o2 in live.items() if o2.symbol == o.symbol]:
                mdl.cancel(k2)
                live.pop(k2)
        compare(f'after execute #{key} ({eff})')

    def do_cancel(key):
        o = live.pop(key)
        hist.append(['cancel', key])
        w.cancel(o)
        mdl.cancel(key)
        compare(f'after cancel #{key}')

    def rq(x):
        return round(x * 16) / 16.0 if dyadic else round(x, 4)

    def rqty(sym, frac=None):
        amm = float(mdl.available_margin())
        p = mdl.price[sym]
        frac = frac if frac is not None else rng.choice([0.02, 0.05, 0.1, 0.2, 0.4])
        q = max(amm, 0) * lev * frac / p
        if dyadic:
            q = round(q * 16) / 16.0
            return q if q > 0 else 0.0625
        dec = rng.choice([1, 2, 3, 4])
        q = round(q, dec)
        return q if q > 0 else 10 ** -dec

    try:
        compare('initial')
        n_ops = job['length']
        for step in range(n_ops):
            c('ops')
            sym = rng.choice(syms)
            cur = mdl.price[sym]
            r = rng.random()
            open_pos = mdl.qty[sym] != 0
            mine = [k for k, o in live.items() if o.symbol == sym]
            if r < 0.22:
                side = rng.choice(['buy', 'sell'])
                typ = rng.choice(['LIMIT', 'STOP'])
                price = rprice(cur * (1 + rng.uniform(-0.05, 0.05)), rng.choice([1, 2, 4]))
                do_submit(sym, side, typ, rqty(sym), price, False)
            elif r < 0.34:
                side = rng.choice(['buy', 'sell'])
                k = do_submit(sym, side, 'MARKET', rqty(sym), cur, False)
                do_fill(k)
            elif r < 0.42:
                # sized around the threshold
                side = rng.choice(['buy', 'sell'])
                factor = rng.choice([0.9, 0.99, 0.999, 0.999999, 1.000001, 1.001, 1.01, 1.5])
                amm = float(mdl.available_margin())
                if amm > 0 and not dyadic:
                    price = rprice(cur * (1 + rng.uniform(-0.02, 0.02)), 2)
                    q = round(amm * lev * factor / price, 8)
                    if q > 0:
                        do_submit(sym, side, rng.choice(['LIMIT', 'STOP']), q, price, False)
            elif r < 0.47:
                # exactly representable boundary: need == available margin or one unit above
                amm = mdl.available_margin()
                price = float(rng.choice([1, 2, 4, 8, 16, 0.5]))
                q = amm * mdl.L / F(price)
                if dyadic and amm > 0 and q.denominator <= 2 ** 20 and q < 2 ** 30:
                    bump = rng.choice([0, 0, 1, -1])
                    qf = float(q) + bump * 2.0 ** -10
                    if qf > 0:
                        do_submit(sym, rng.choice(['buy', 'sell']), 'LIMIT', qf, price, False, exact=True)
            elif r < 0.60 and open_pos:
                side = 'sell' if mdl.qty[sym] > 0 else 'buy'
                typ = rng.choice(['LIMIT', 'STOP', 'MARKET'])
                pq = abs(float(mdl.qty[sym]))
                q = rng.choice([pq, pq, rq(pq * rng.uniform(0.1, 0.9)) or pq, rq(pq * rng.uniform(1.1, 2))])
                price = cur if typ == 'MARKET' else rprice(cur * (1 + rng.uniform(-0.05, 0.05)), 2)
                k = do_submit(sym, side, typ, q, price, True)
                if typ == 'MARKET':
                    do_fill(k)
            elif r < 0.68 and open_pos:
                # non-reduce-only order against the position: reduction, close or flip
                side = 'sell' if mdl.qty[sym] > 0 else 'buy'
                pq = abs(float(mdl.qty[sym]))
                q = rng.choice([pq, rq(pq * rng.uniform(0.1, 0.9)) or pq, rq(pq * rng.uniform(1.2, 2.5))])
                need = mdl.needs(q, cur)
                if need <= mdl.available_margin() * F(9, 10):
                    k = do_submit(sym, side, 'MARKET', q, cur, False)
                    do_fill(k)
            elif r < 0.82 and mine:
                do_fill(rng.choice(mine))
            elif r < 0.90 and mine:
                do_cancel(rng.choice(mine))
            elif r < 0.95:
                # submit -> cancel round trip must restore the available margin exactly
                before = exch.available_margin
                side = rng.choice(['buy', 'sell'])
                k = do_submit(sym, side, rng.choice(['LIMIT', 'STOP']), rqty(sym), rprice(cur * 1.01, 2), False)
                do_cancel(k)
                after = exch.available_margin
                c('cancel_round_trips')
                if after != before:
                    v('margin_not_restored_by_cancel', f'available margin {before} -> submit -> cancel -> {after}')
            else:
                newp = rprice(cur * (1 + rng.gauss(0, 0.03)), 4)
                if newp > 0:
                    hist.append(['move', sym, newp])
                    w.move(sym, newp)
                    mdl.price[sym] = newp
                    compare('after price move')
            if len([1 for o in live.values()]) > 10:
                c('more_than_10_resting')
            # twins
            if r > 0.97 and mine:
                o = live[rng.choice(mine)]
                if not o.reduce_only:
                    do_submit(o.symbol, o.side, o.type, abs(o.qty), o.price, False)
                    c('twin_orders')
    except Stop:
        pass
    except Exception as ex:
        import traceback
        viol.append({'key': f'operation_raised:{type(ex).__name__}', 'msg': f'{ex!r}',
                     'witness': {'config': cfg, 'symbols': syms, 'history': list(hist),
                                 'tb': traceback.format_exc()[-1200:]}})
    finally:
        w.close()
    sig = repr((lev > 1, fee > 0, nsym, tuple(mdl.effects)))
    res = {'viol': viol, 'cnt': cnt, 'sigs': [sig] if mdl.effects else []}
    if job['i'] < 3:
        res['sample'] = {'config': cfg, 'symbols': syms, 'history_head': hist[:20], 'effects': mdl.effects[:20]}
    return res


def _session(job):
    import random as _r
    from .. import session, specgen, shadow
    rng = _r.Random(job['seed'])
    spec = specgen.random_session(rng, minutes=rng.choice([300, 500, 800]), exch_type='futures', nsym=rng.choice([1, 1, 2]))
    for r in spec['routes']:
        r['script']['observe'] = 'light'
    out = session.run_session(spec, snapshots=True)
    syms = [r['symbol'] for r in spec['routes']]
    viol, cnt = shadow.run_futures(out['events'], spec['config'], syms)
    cnt['sessions'] = 1
    for x in viol:
        x['key'] = 'session:' + x['key']
        x['witness']['spec'] = spec
    return {'viol': viol, 'cnt': cnt, 'sigs': []}


def run_job(job):
    if job.get('kind') == 'session':
        return _session(job)
    out = {'viol': [], 'cnt': {}, 'sigs': [], 'sample': None}
    for sub in job['batch']:
        r = _history(sub)
        out['viol'].extend(r['viol'][:2])
        for k, n in r['cnt'].items():
            out['cnt'][k] = out['cnt'].get(k, 0) + n
        out['sigs'].extend(r['sigs'])
        if r.get('sample') and out['sample'] is None:
            out['sample'] = r['sample']
    seen, vv = set(), []
    for x in out['viol']:
        if x['key'] not in seen:
            seen.add(x['key'])
            vv.append(x)
    out['viol'] = vv
    return out


def make_jobs(tier, seed):
    rng = random.Random(30000 + seed)
    n = 3000 if tier == 'quick' else 500000
    subs = [{'seed': rng.randrange(1 << 30), 'i': i, 'length': rng.choice([8, 15, 30, 60])} for i in range(n)]
    B = 25
    jobs = [{'kind': 'batch', 'batch': subs[i:i + B]} for i in range(0, n, B)]
    # the same shadow account inside real backtest sessions (real strategy layer, both simulators)
    jobs += [{'kind': 'session', 'seed': rng.randrange(1 << 30)} for _ in range(120 if tier == 'quick' else 6000)]
    return jobs
