"""C10 - smart order routing and declarative exit orders.

Offline trace checker over scripted sessions (every declaration the strategy makes is logged by the hooks) plus a
dense sweep of the routing rule through the real Broker / Strategy submit functions in a prepared store.
"""
import math
import random

import numpy as np

from .. import direct, pathmon, session, specgen
from ..scripted import make_strategy
from ..tracer import TR

PROP = 'C10'
RULE = ('(a) scripted sessions declaring / modifying buy, sell, stop_loss, take_profit in go_long/go_short, on_open_position, '
        'update_position, on_reduced_position, on_increased_position and via liquidate(), incl. exits around the 0.015 % band; every '
        'submitted order is matched to a row of the latest declaration and its type to the routing rule; at every after() the '
        'active exits are matched injectively to the latest declaration; cancel decisions are compared with should_cancel_entry(); '
        '(b) sweep of price/current in [0.999, 1.001] incl. the neighbours of 1 +- 0.00015 through the real routing functions. '
        'distinct = distinct (hook, order type, side, reduce_only) sequences; non-trivial = >= 1 routed row.')
ASSUMPTIONS = ['initial exits are declared well-formed (stop on the losing side, target on the winning side of every possible entry '
               'price); jesse replaces wrong-sided initial exits by market orders, a documented convenience outside the statement',
               'current price = position.current_price at the instant of submission (equals strategy.price)',
               'decisions closer than 1e-12 to the 0.015 % threshold accept either type']
MIN_OBS = {'wrong_sided_initial_stops_replaced': 8, 'stops_declared_inside_an_entry_ladder': 30, 'declared_rows_checked': 3000, 'routed_rows': 2000, 'routed_rows_near_boundary': 150, 'exit_modifications': 200, 'after_checks_with_position': 2000,
           'cancel_decisions_yes': 150, 'cancel_decisions_no': 150, 'sweep_points': 1500}
TH = 0.00015


def expected_type(kind, side_of_position, order_side, p, cur):
    """kind: 'entry' | 'exit'. returns (type or None when within the don't-care band)"""
    d = abs(1 - p / cur)
    if abs(d - TH) < 1e-12:
        return None
    if d <= TH:
        return 'MARKET'
    if kind == 'entry':
        if order_side == 'buy':
            return 'STOP' if p > cur else 'LIMIT'
        return 'STOP' if p < cur else 'LIMIT'
    # exit of a long = sell: above current -> LIMIT (profit side), below -> STOP
    if side_of_position == 'long':
        return 'LIMIT' if p > cur else 'STOP'
    return 'LIMIT' if p < cur else 'STOP'


def check_trace(events, aborted):
    viol, cnt = [], {}

    def c(k, n=1):
        cnt[k] = cnt.get(k, 0) + n

    def v(key, msg, **w):
        viol.append({'key': key, 'msg': msg, 'witness': w})

    book = pathmon.Book()
    decl = {}            # symbol -> latest declaration dict
    wrong_sided = {}     # symbol -> the scripted strategy has just declared a wrong-sided initial stop (harness note)
    replacement = {}     # order -> (symbol, stop-loss rows it stands for): jesse's market order for a wrong-sided initial stop
    decl_hook = {}
    last_exit_decl = {}
    in_terminate = set()
    step = {}            # symbol -> state of the current strategy step
    cycle_start = {}     # symbol -> seq at which the current position cycle began
    calls = {}
    for e in events:
        k = e['k']
        if k == 'note' and e.get('what') == 'wrong_sided_initial_stop':
            wrong_sided[e.get('symbol')] = True
            continue
        if k == 'hook':
            sym = e['symbol']
            h = e['hook']
            if h == 'before_terminate':
                in_terminate.add(sym)
            if 'decl' in e:
                prev = decl.get(sym)
                decl[sym] = e['decl']
                decl_hook[sym] = h
                if prev is not None and h in ('update_position', 'on_reduced_position', 'on_increased_position') and \
                        (prev.get('sl') != e['decl'].get('sl') or prev.get('tp') != e['decl'].get('tp')):
                    c('exit_modifications')
            if h == 'before':
                step[sym] = {'pos_open': e['pos'][0] != 0, 'answer': None,
                             'resting_entries': [o['o'] for o in book.active(sym) if not o['reduce_only']],
                             'cancelled': []}
            if h == 'after' and sym not in in_terminate:
                st = step.get(sym)
                act = book.active(sym, kinds=('LIMIT', 'STOP', 'MARKET'))
                exits = [o for o in act if o['reduce_only']]
                if e['pos'][0] != 0:
                    c('after_checks_with_position')
                    d = e['decl']
                    rows = [tuple(r) for r in (d.get('sl') or []) if isinstance(d.get('sl'), list)] + \
                           [tuple(r) for r in (d.get('tp') or []) if isinstance(d.get('tp'), list)]
                    free = list(rows)
                    for o in sorted(exits, key=lambda o_: o_['type'] == 'MARKET'):     # exact-price kinds first
                        hit = next((r for r in free if abs(r[0]) == abs(o['qty']) and r[1] == o['price']), None)
                        for r in (free if hit is None else []):
                            if abs(r[0]) == abs(o['qty']) and (r[1] == o['price'] or
                                                               (o['type'] == 'MARKET' and abs(1 - r[1] / o['price']) <= TH * 1.01)):
                                hit = r
                                break
                        if hit is None:
                            v('stale_exit_order_after_modification',
                              f'after() at index {e["index"]}: active exit {o["type"]} {o["side"]} {o["qty"]}@{o["price"]} matches no '
                              f'(remaining) row of the latest declaration sl={d.get("sl")} tp={d.get("tp")}', order=o)
                            break
                        free.remove(hit)
                    c('active_exits_matched', len(exits))
                    # converse: every declared exit row is backed by an order of this cycle that is active or was executed
                    mine = [o for o in book.o.values() if o['symbol'] == sym and o['reduce_only'] and
                            o['seq'] >= cycle_start.get(sym, 0) and o['status'] in ('ACTIVE', 'EXECUTED')]
                    pool = list(mine)
                    # two passes: rows that have an order at exactly their price take it first; only then may a row be backed by
                    # a MARKET order inside the band (a greedy single pass can give the band match to the wrong row)
                    exact_hit = {}
                    for ri, r in enumerate(rows):
                        for o in pool:
                            if abs(r[0]) == abs(o['qty']) and r[1] == o['price']:
                                exact_hit[ri] = o
                                pool.remove(o)
                                break
                    for ri, r in enumerate(rows):
                        hit = exact_hit.get(ri)
                        if hit is None:
                            for o in pool:
                                if abs(r[0]) == abs(o['qty']) and o['type'] == 'MARKET' and abs(1 - r[1] / o['price']) <= TH * 1.01:
                                    hit = o
                                    break
                        c('declared_rows_checked')
                        if hit is None:
                            v('declared_exit_row_without_order',
                              f'after() at index {e["index"]}: declared exit row {r} (sl={d.get("sl")} tp={d.get("tp")}) has no active or '
                              f'executed order in this position cycle; exit orders of the cycle: '
                              f'{[(o["type"], o["qty"], o["price"], o["status"]) for o in mine][:6]}')
                            break
                        if hit in pool:
                            pool.remove(hit)
                else:
                    d = e['decl']
                    for name, side in (('buy', 'buy'), ('sell', 'sell')):
                        rws = d.get(name)
                        if isinstance(rws, list) and rws:
                            pool = [o for o in act if not o['reduce_only'] and o['side'] == side]
                            for r in rws:
                                hit = next((o for o in pool if abs(o['qty']) == abs(r[0]) and
                                            (o['price'] == r[1] or (o['type'] == 'MARKET' and abs(1 - r[1] / o['price']) <= TH * 1.01))), None)
                                c('declared_rows_checked')
                                if hit is None:
                                    v('declared_entry_row_without_order',
                                      f'after() at index {e["index"]} (no position): declared {name} row {r} has no active order; '
                                      f'active entries {[(o["type"], o["qty"], o["price"]) for o in pool][:6]}')
                                    break
                                pool.remove(hit)
                    if exits:
                        v('exit_order_active_after_position_closed',
                          f'after() at index {e["index"]} with a closed position: {len(exits)} exit orders still active',
                          orders=exits[:4])
                if st is not None and not st['pos_open'] and st['resting_entries']:
                    if st['answer'] is True:
                        c('cancel_decisions_yes')
                        alive = [o for o in st['resting_entries'] if book.o[o]['status'] == 'ACTIVE']
                        if alive:
                            v('entry_orders_survive_cancel_decision',
                              f'should_cancel_entry() answered yes at index {e["index"]} but {len(alive)} entry orders are still active')
                    elif st['answer'] is False:
                        c('cancel_decisions_no')
                        gone = [o for o in st['cancelled'] if o in st['resting_entries']]
                        if gone and e['pos'][0] == 0:
                            v('entry_orders_cancelled_although_answer_no',
                              f'should_cancel_entry() answered no at index {e["index"]} but {len(gone)} resting entry orders were '
                              f'cancelled')
            continue
        if k == 'cancel_answer':
            st = step.get(e['symbol'])
            if st is not None:
                st['answer'] = e['answer']
            continue
        if k == 'submit':
            book.on_submit(e)
            sym = e['symbol']
            if e.get('in_liq') or sym in in_terminate:
                continue
            d = decl.get(sym)
            cur = (e.get('pos') or {}).get('cur')
            if d is None or cur is None:
                continue
            posq = (e.get('pos') or {}).get('qty') or 0
            ro = e['reduce_only']
            q, p, typ, side = abs(e['qty']), e['price'], e['type'], e['side']
            if ro:
                if posq == 0:
                    v('exit_submitted_without_position', f'reduce-only order submitted while the position is closed: {e}')
                    continue
                pside = 'long' if posq > 0 else 'short'
                if side != ('sell' if pside == 'long' else 'buy'):
                    v('exit_not_on_closing_side', f'{pside} position, exit order side {side}')
                rows = [tuple(r) for name in ('sl', 'tp') for r in (d.get(name) or []) if isinstance(d.get(name), list)]
                kind = 'exit'
            else:
                pside = None
                rows = [tuple(r) for r in (d.get('buy' if side == 'buy' else 'sell') or [])
                        if isinstance(d.get('buy' if side == 'buy' else 'sell'), list)]
                kind = 'entry'
                # an exit declared by a hook is never routed as a non-reduce-only order
            match = None
            if typ == 'MARKET':
                for r in rows:
                    if abs(r[0]) == q and r[1] == p:
                        match = r
                        break
            for r in rows:
                if match is not None:
                    break
                if abs(r[0]) != q:
                    continue
                if typ == 'MARKET':
                    if abs(1 - r[1] / cur) <= TH + 1e-12:
                        match = r
                        break
                elif r[1] == p:
                    match = r
                    break
            if match is None:
                key = 'submitted_order_matches_no_declared_row'
                if kind == 'exit' and not ro:
                    key = 'exit_not_reduce_only'
                    if typ == 'MARKET' and wrong_sided.get(sym) and any(abs(r[0]) == q for r in (d.get('sl') or [])
                                                                          if isinstance(d.get('sl'), list)):
                        # classification only: jesse replaces a stop declared with the entry on the wrong side of the entry price
                        # by a plain market order for its quantity (listed finding; anything else keeps the general key)
                        key = 'wrong_sided_initial_exit_replaced_by_market_order'
                        wrong_sided[sym] = False
                        c('wrong_sided_initial_stops_replaced')
                        replacement[e['o']] = (sym, [tuple(r) for r in d.get('sl')])
                # an exit routed as a plain (non reduce-only) order shows up as an 'entry' that matches no entry row
                if kind == 'entry' and posq != 0:
                    ex_rows = [tuple(r) for name in ('sl', 'tp') for r in (d.get(name) or []) if isinstance(d.get(name), list)]
                    if any(abs(r[0]) == q for r in ex_rows):
                        key = 'exit_not_reduce_only'
                        if typ == 'MARKET' and wrong_sided.get(sym) and any(
                                abs(r[0]) == q for r in (d.get('sl') or []) if isinstance(d.get('sl'), list)):
                            # classification only: jesse replaces a stop declared with the entry on the wrong side of the entry
                            # price by a plain market order for its quantity (listed finding)
                            key = 'wrong_sided_initial_exit_replaced_by_market_order'
                            wrong_sided[sym] = False
                            c('wrong_sided_initial_stops_replaced')
                            replacement[e['o']] = (sym, [tuple(r) for r in d.get('sl')])
                v(key, f'{kind} order {typ} {side} {q}@{p} (current {cur}, after hook {decl_hook.get(sym)}) matches no row of '
                       f'{ {kk: d.get(kk) for kk in ("buy", "sell", "sl", "tp")} }', order={kk: e[kk] for kk in ('o', 'type', 'side', 'qty', 'price', 'reduce_only', 't')})
                continue
            c('routed_rows')
            c(f'routed:{kind}:{typ}')
            want = expected_type(kind, pside, side, match[1], cur)
            if abs(abs(1 - match[1] / cur) - TH) < 0.00005:
                c('routed_rows_near_boundary')
            if want is None:
                c('dont_care')
            elif want != typ:
                v(f'wrong_order_type:{kind}',
                  f'{kind} row {match} with current price {cur} (ratio {match[1] / cur:.8f}) must be {want}, was submitted as {typ}',
                  order={kk: e[kk] for kk in ('o', 'type', 'side', 'qty', 'price', 'reduce_only', 't')})
            if typ == 'MARKET':
                if kind == 'entry' and p != cur:
                    v('market_entry_not_priced_at_current_price', f'market entry priced {p}, current price {cur}')
                if kind == 'exit' and abs(1 - p / match[1]) > 1e-12 and abs(1 - p / cur) > 1e-12:
                    v('market_exit_price_differs', f'market exit priced {p}, requested {match[1]}, current {cur}')
            continue
        if k == 'cancel_ret':
            o = book.o.get(e['o'])
            if o is not None and o['status'] == 'ACTIVE' and e['status'] == 'CANCELED':
                o['status'] = 'CANCELED'
                st = step.get(o['symbol'])
                if st is not None:
                    st['cancelled'].append(e['o'])
            continue
        if k == 'exec_call':
            calls[e['o']] = e
            continue
        if k == 'exec_ret':
            o = book.o.get(e['o'])
            if o is not None and calls.get(e['o'], {}).get('status') == 'ACTIVE' and e['status'] == 'EXECUTED':
                o['status'] = 'EXECUTED'
                if e['o'] in replacement:
                    # the market order standing for the stop rows declared with the entry: once the strategy has declared other
                    # stop rows, it is a stale exit and must have been cancelled
                    sym_, rows_ = replacement.pop(e['o'])
                    now_ = (decl.get(sym_) or {}).get('sl')
                    c('wrong_sided_replacement_orders_followed')
                    if isinstance(now_, list) and [tuple(r) for r in now_] != rows_:
                        v('stale_exit_order_after_modification',
                          f"the MARKET order that stood for the initial stop rows {rows_} was executed after the stop-loss had been "
                          f"re-declared as {now_}", order=o)
                pb = (calls[e['o']].get('pos') or {}).get('qty')
                pa = (e.get('pos') or {}).get('qty')
                if o.get('reduce_only') and not o.get('in_liq'):
                    c('exit_fills_checked')
                    if pb == 0:
                        # "once the position is closed no exit order remains active": this one was, and it has been filled
                        v('exit_order_filled_after_position_closed',
                          f"exit {o['type']} {o['side']} {o['qty']}@{o['price']} was executed although the position was already closed "
                          f"(position afterwards: {pa})", order=o)
                if pb == 0 and pa not in (0, None):
                    cycle_start[o['symbol']] = calls[e['o']]['seq']
    return viol, cnt


def _dedup(viol):
    seen, out = set(), []
    for x in viol:
        if x['key'] not in seen:
            seen.add(x['key'])
            out.append(x)
    return out


def _session(job):
    rng = random.Random(job['seed'])
    spec = specgen.random_session(rng, minutes=rng.choice([400, 700]), tfs=['1m', '3m', '5m'],
                                  family=rng.choice(['walk', 'gappy', 'trend', 'flatty', 'lattice']))
    for r in spec['routes']:
        sc = r['script']
        sc['observe'] = 'light'
        sc['p_update'] = rng.choice([0.1, 0.3, 0.5])
        sc['update_kinds'] = rng.sample(['trail_sl', 'tp_ladder', 'sl_ladder', 'liquidate', 'near_tp', 'near_tp', 'add_market', 'add_market',
                                         'reweight_tp', 'reweight_tp', 'reweight_sl', 'trail_sl_inplace', 'trail_sl_inplace', 'move_tp_inplace',
                                         'double_market_exit', 'double_market_exit', 'partial_market_sl', 'partial_market_sl',
                                         'partial_market_tp', 'withdraw_tp', 'withdraw_tp', 'withdraw_sl'],
                                        rng.randint(2, 4))
        sc['on_increased'] = rng.choice(['retarget', 'retarget', None])
        sc['cancel_policy'] = rng.choice(['rnd', 'rnd', 'never', 'always'])
        sc['entry'] = rng.choice(['limit', 'stop', 'ladder', 'mixed', 'near'])
        sc['p_enter'] = rng.choice([0.2, 0.4])
        if job['i'] % 10 == 6 and spec['config']['type'] != 'spot':
            # a single market entry whose stop is declared on the WRONG side of the entry in go_long / go_short and declared
            # properly in on_open_position
            sc.update(entry='market', exits_in='go', wrong_side_sl_in_go=0.7, sl=sc.get('sl') or 0.01, sl_points=1)
        if job['i'] % 5 == 2 and spec['config']['type'] != 'spot':
            # an entry ladder with its exits declared in go_long / go_short and the stop BETWEEN the first two rungs
            sc.update(entry='ladder', exits_in='go', sl_inside_ladder=True, sl=sc.get('sl') or 0.01, sl_points=1, entry_dist=0.004)
        if job['i'] % 5 == 4:
            start = list(spec['candles'].values())[0].get('start', 100.0)
            sc.update(abs_exits=[round(start * 0.97, 4), round(start * 1.03, 4)], fixed_qty=round(50.0 / start, 4), entry='market',
                      p_update=0.0, on_reduced=None, on_increased=None, sides='long' if spec['config']['type'] == 'spot' else sc['sides'])
    out = session.run_session(spec, snapshots=True)
    n_inside = sum(1 for e in out['events'] if e['k'] == 'note' and e.get('what') == 'stop_inside_ladder')
    viol, cnt = check_trace(out['events'], out['error'] is not None)
    cnt['sessions'] = 1
    cnt['stops_declared_inside_an_entry_ladder'] = n_inside
    if out['error']:
        cnt['sessions_aborted:' + out['error']['type']] = 1
    for x in viol:
        x['witness']['spec'] = spec
    sig = repr(tuple((e['type'], e['side'], e['reduce_only']) for e in out['events'] if e['k'] == 'submit')[:40])
    res = {'viol': _dedup(viol), 'cnt': cnt, 'sigs': [sig] if cnt.get('routed_rows') else []}
    if job['i'] < 2:
        res['sample'] = {'kind': 'session', 'type': spec['config']['type'], 'routed_rows': cnt.get('routed_rows', 0),
                         'script': spec['routes'][0]['script']}
    return res


def _sweep(job):
    """the routing rule on a dense sweep of price/current through the real Broker and Strategy submit functions"""
    rng = random.Random(job['seed'])
    viol, cnt = [], {}
    cur = job['cur']
    ratios = set()
    for base in (1 - TH, 1 + TH, 1.0):
        x = base
        for _ in range(6):
            ratios.add(x)
            x = math.nextafter(x, 2)
        x = base
        for _ in range(6):
            ratios.add(x)
            x = math.nextafter(x, 0)
    for _ in range(job['n']):
        ratios.add(rng.uniform(0.999, 1.001))
        ratios.add(1 + rng.choice([-1, 1]) * TH * rng.uniform(0.98, 1.02))
    cfg = {'starting_balance': 1e7, 'fee': 0, 'type': job['type']}
    if job['type'] == 'futures':
        cfg.update(futures_leverage=2, futures_leverage_mode='cross')
    script = {'seed': 1, 'p_enter': 0.0, 'sides': 'both', 'observe': 'none', 'exits_in': 'none'}
    sym = 'BTC-USDT'
    w = direct.World(cfg, [sym], strategy_cls=make_strategy(script), prices={sym: cur})
    st = w.pos[sym].strategy
    from jesse.store import store
    try:
        sides = ['long'] if job['type'] == 'spot' else ['long', 'short']
        for pside in sides:
            # ---- entries (no position) ----
            for r in sorted(ratios):
                p = cur * r
                if p <= 0:
                    continue
                n0 = len(store.orders.get_orders(direct.EXCHANGE, sym))
                if pside == 'long':
                    st._buy = np.array([[0.01, p]])
                    st._submit_buy_orders()
                    oside = 'buy'
                else:
                    st._sell = np.array([[0.01, p]])
                    st._submit_sell_orders()
                    oside = 'sell'
                orders = store.orders.get_orders(direct.EXCHANGE, sym)[n0:]
                cnt['sweep_points'] = cnt.get('sweep_points', 0) + 1
                if len(orders) != 1:
                    viol.append({'key': 'entry_row_not_submitted_once', 'msg': f'{len(orders)} orders for one row', 'witness': {}})
                    continue
                o = orders[0]
                want = expected_type('entry', None, oside, p, st.price)
                if want is not None and o.type != want:
                    viol.append({'key': 'wrong_order_type:entry',
                                 'msg': f'entry {oside} at {p!r} with current {st.price!r} (ratio {p / st.price!r}) must be {want}, '
                                        f'got {o.type}', 'witness': {'ratio': p / st.price}})
                if abs(o.qty) != 0.01 or (o.type != 'MARKET' and o.price != p) or o.reduce_only or o.side != oside:
                    viol.append({'key': 'entry_order_fields_differ', 'msg': f'{o.type} {o.side} {o.qty}@{o.price} ro={o.reduce_only} for '
                                                                            f'row (0.01, {p})', 'witness': {}})
                o.cancel()
                store.orders.to_execute = []
            # ---- exits (open position) ----
            o = w.submit(sym, 'buy' if pside == 'long' else 'sell', 'MARKET', 1.0, cur, False)
            w.execute(o)
            for r in sorted(ratios):
                p = cur * r
                n0 = len(store.orders.get_orders(direct.EXCHANGE, sym))
                try:
                    o = st.broker.reduce_position_at(0.5, p, st.price)
                except Exception as ex:
                    viol.append({'key': f'reduce_position_at_raises:{type(ex).__name__}', 'msg': f'{ex} at ratio {r!r}', 'witness': {}})
                    continue
                cnt['sweep_points'] = cnt.get('sweep_points', 0) + 1
                want = expected_type('exit', pside, o.side, p, st.price)
                if want is not None and o.type != want:
                    viol.append({'key': 'wrong_order_type:exit',
                                 'msg': f'exit of a {pside} at {p!r} with current {st.price!r} (ratio {p / st.price!r}) must be {want}, '
                                        f'got {o.type}', 'witness': {'ratio': p / st.price}})
                closing = 'sell' if pside == 'long' else 'buy'
                if abs(o.qty) != 0.5 or o.price != p or not o.reduce_only or o.side != closing:
                    viol.append({'key': 'exit_order_fields_differ', 'msg': f'{o.type} {o.side} {o.qty}@{o.price} ro={o.reduce_only} '
                                                                           f'for exit (0.5, {p}) of a {pside}', 'witness': {}})
                o.cancel()
                store.orders.to_execute = []
            # close the position again
            o = w.submit(sym, 'sell' if pside == 'long' else 'buy', 'MARKET', 1.0, cur, True)
            w.execute(o)
    finally:
        w.close()
    return {'viol': _dedup(viol), 'cnt': cnt, 'sigs': [],
            'sample': {'kind': 'sweep', 'current': cur, 'type': job['type'], 'points': cnt.get('sweep_points')}}


def run_job(job):
    return _session(job) if job['kind'] == 'session' else _sweep(job)


def make_jobs(tier, seed):
    rng = random.Random(100000 + seed)
    jobs = [{'kind': 'session', 'seed': rng.randrange(1 << 30), 'i': i} for i in range(300 if tier == 'quick' else 16000)]
    for i in range(6 if tier == 'quick' else 60):
        jobs.append({'kind': 'sweep', 'seed': rng.randrange(1 << 30), 'n': 150, 'type': ['futures', 'spot', 'futures'][i % 3],
                     'cur': rng.choice([100.0, 0.00037, 43210.5, 1.0, 7.77])})
    return jobs
