"""C01 - no look-ahead: the run up to simulated time t is a function of the candles that end before t.

Two-run differential monitor (hyperproperty): session A and session B get identical arguments except that every
candle with index >= k is replaced (adversarial and random tails). Everything the tracer records before the simulator
first touches a candle with index >= k must be identical: every hook invocation with digests of every readable candle
array (all symbols, all route timeframes, array and current candle), price, position, balance, margin, every order
submission / execution / cancellation with time stamps, every stored candle.
"""
import json
import random

import numpy as np

from .. import frontier, gen, session, specgen

PROP = 'C01'
RULE = ('random scripted sessions (1-2 symbols, trading timeframe 1m-15m, data routes smaller and larger incl. 1h, spot/futures, '
        'warm-up on/off, both simulators); per base run 4-6 cuts chosen from its own trace (before/at/after a submission, while '
        'orders rest, mid-window of a larger timeframe, first minutes, random) x replacement tails (sweep across all resting '
        'prices, jump away, random). distinct = distinct (simulator, route timeframes, cut class, tail kind, prefix order-event '
        'signature); non-trivial = the compared prefix contains >= 1 resting order and >= 1 fill.')
ASSUMPTIONS = ['normal simulator: prefix = events while the simulated clock <= T_k; fast simulator: prefix = events before the '
               'chunk that starts at index >= k', 'fast simulator: k on a boundary of every trading timeframe',
               'scripted strategies decide from (index, own observations) only']
MIN_OBS = {'frontier_row_accesses': 20000, 'pairs_compared': 200, 'pairs_nontrivial': 50, 'pairs_step': 60, 'pairs_fast': 40,
           'prefix_events_compared': 100000, 'prefix_hook_events': 20000,
           'sessions_with_liquidations': 5, 'sessions_with_unaligned_warmup': 4,
           'sessions_with_candle_sets_of_different_lengths': 2}


def _tail(rng, base, k, kind, resting, step=None):
    """replacement candles for rows k.. of `base` (same timestamps)"""
    out = base.copy()
    n = len(base) - k
    prev_close = base[k - 1, 2] if k > 0 else base[0, 1]
    if kind == 'random':
        spec = {'seed': rng.randrange(1 << 30), 'n': n, 'start': prev_close * rng.choice([1.0, 1.0, 1.02, 0.97]),
                'vol': rng.choice([0.001, 0.004, 0.01]), 'gap_p': rng.choice([0, 0.3]), 'lattice': step,
                't0': int(base[k, 0])}
        out[k:] = gen.candles(spec)
    else:
        lo = min([prev_close] + resting) * 0.9
        hi = max([prev_close] + resting) * 1.1
        if kind == 'sweep':
            # first replaced candle sweeps across every resting order price and far beyond
            o = prev_close
            c = prev_close * rng.choice([0.95, 1.05])
            first = [o, c, hi, lo]
            start = c
        else:  # jump away from everything that rests
            far = hi * 1.2 if rng.random() < 0.5 else lo * 0.8
            first = [far, far * 1.001, far * 1.002, far * 0.999]
            start = far * 1.001
        spec = {'seed': rng.randrange(1 << 30), 'n': n, 'start': start, 'vol': 0.002, 't0': int(base[k, 0])}
        t = gen.candles(spec)
        t[0, 1:5] = first
        if n > 1:
            t[1, 1] = first[1]
            t[1, 3] = max(t[1, 3], t[1, 1])
            t[1, 4] = min(t[1, 4], t[1, 1])
        out[k:] = t
    return out


def _prefix(events, t_cut, fast, k_cut=None):
    """Everything that belongs to simulated time < T_k.
    normal simulator: the clock is set from the input timestamps at the start of every minute, so the prefix is every
      event recorded while the clock is <= T_k (minute k-1 ends at T_k);
    fast simulator: the clock only moves at fills and chunk ends, so the prefix ends where the chunk whose loop index is
      >= k begins (a chunk that starts earlier but swallows candle k is inside the prefix - that is a peek; the loop index
      is a function of positions only, so a simulator that hands a chunk later candles cannot move the cut)."""
    out = []
    started = False
    by_chunk = fast and k_cut is not None and any(e['k'] == 'chunk' for e in events)
    for e in events:
        k = e['k']
        if k == 'daily':
            started = True
        if not started:
            # warm-up injection happens before the simulated clock is set: the clock value is the wall clock
            e = dict(e, t=None)
        elif by_chunk:
            if k == 'chunk' and e['index'] >= k_cut:
                break
        elif fast:
            if k == 'mmatch_enter' and e['ts0'] >= t_cut:
                break
        else:
            if e['t'] > t_cut:
                break
        out.append(e)
    return out


def _ordinal_prefix(events, k_cut, n_minutes):
    """normal simulator, position-based cut: iteration n of the minute loop is recognised by the n-th matching call of the
    first symbol (a function of positions only); the prefix ends before the 1m store update that precedes the k-th one.
    Returns None when the trace does not have one matching call per input minute (then only the clock-based cut is
    used) - the candle CONTENT of the calls is deliberately not consulted: a simulator that runs ahead shifts it."""
    started, sym0, n, last_plain_add, end = False, None, 0, None, None
    for i, e in enumerate(events):
        kind = e['k']
        if kind == 'daily':
            started = True
            continue
        if not started:
            continue
        if kind == 'add1m' and not e.get('in_match') and (sym0 is None or e.get('symbol') == sym0):
            last_plain_add = i
        if kind == 'match_enter':
            if sym0 is None:
                sym0 = e['symbol']
            if e['symbol'] != sym0:
                continue
            if n == k_cut:
                end = last_plain_add if last_plain_add is not None and last_plain_add > i - 3 else i
            n += 1
    if end is None or n != n_minutes:
        return None
    out, seen_daily = [], False
    for x in events[:end]:
        if x['k'] == 'daily':
            seen_daily = True
        out.append(x if seen_daily else dict(x, t=None))
    return out


def _ser(e):
    return json.dumps(e, sort_keys=True, default=repr)


def run_job(job):
    rng = random.Random(job['seed'])
    fast = job['fast']
    spec = specgen.random_session(rng, minutes=rng.choice([240, 360, 480]), fast=fast, tfs=['1m', '3m', '5m', '15m'],
                                  data_tfs=['3m', '5m', '15m', '30m', '1h'], data_only=(job['i'] % 3 == 1),
                                  nsym=2 if job['i'] % 9 == 5 else None)
    if job['i'] % 3 == 1:
        cnt0 = {'sessions_with_data_only_symbol': 1}
    else:
        cnt0 = {}
    if job['i'] % 10 in (2, 3):
        # isolated margin at high leverage without protective stops: positions are force-closed by the liquidation check of a
        # minute / chunk (an event the simulator itself produces from the range of the candles it has just consumed)
        spec['config'] = {'starting_balance': 10000, 'fee': 0.0005, 'type': 'futures', 'futures_leverage': rng.choice([20, 50]),
                          'futures_leverage_mode': 'isolated'}
        for r in spec['routes']:
            r['script'].update(sl=None, entry='market', p_enter=0.5, on_reduced=None)
            if r['script'].get('sides') == 'short' and False:
                pass
    if job['i'] % 7 == 4 and spec['warmup']:
        # a warm-up series that stops in the middle of a window of the larger timeframes (its length is not a multiple of them)
        extra = rng.choice([2, 3, 7])
        spec['warmup'] += extra
        for cs_ in spec['candles'].values():
            cs_['n'] += extra
        cnt0['sessions_with_unaligned_warmup'] = 1
    allc = session.build_candles(spec)
    w = spec['warmup']
    n = min(len(x) for x in allc.values()) - w
    surplus_sym = None
    if job['i'] % 9 == 5 and len(allc) >= 2:
        # candle sets of different lengths: one symbol's series goes on for a few more minutes than the session lasts (the
        # session is as long as the set jesse takes its clock from; the unchanged code ignores the surplus of the others)
        for cand in list(allc)[::-1]:
            longer = dict(allc)
            extra = gen.candles(dict(spec['candles'][cand], n=len(allc[cand]) + 7))
            longer[cand] = extra
            probe = session.run_session(spec, candles={s: x.copy() for s, x in longer.items()}, keep_events=False, snapshots=False)
            if not probe['error']:
                allc, surplus_sym = longer, cand
                cnt0['sessions_with_candle_sets_of_different_lengths'] = 1
                break
    # base run under the read-frontier guard: candle arrays are an ndarray subclass that records every row jesse touches
    frontier.begin()
    A = session.run_session(spec, candles={s: frontier.Guarded(x.copy()) for s, x in allc.items()})
    reads = frontier.end()
    ev = A['events']
    cnt, viol, sigs = dict(cnt0, base_sessions=1), [], []
    cnt['frontier_row_accesses'] = len(reads)
    # ---- choose cuts from A's own trace --------------------------------------------------------
    import math
    align = 1
    if fast:
        for r in spec['routes']:
            m = gen.TF_MIN[r['timeframe']]
            align = align * m // math.gcd(align, m)
    t0 = gen.T0 + w * 60000

    def idx(t):            # minute index whose processing happens at clock t (clock = minute start + 1 min)
        return int((t - t0) // 60000)

    cuts = {}
    subs = [e for e in ev if e['k'] == 'submit']
    fills = [e for e in ev if e['k'] == 'exec_ret' and e['status'] == 'EXECUTED']
    for e in rng.sample(subs, min(3, len(subs))):
        i = idx(e['t'])
        for d, name in ((-1, 'before_submit'), (0, 'at_submit'), (1, 'after_submit')):
            cuts.setdefault(i + d, name)
    for e in rng.sample(fills, min(2, len(fills))):
        cuts.setdefault(idx(e['t']) - 1, 'before_fill')
        cuts.setdefault(idx(e['t']), 'at_fill')
    liqs = [e for e in ev if e['k'] == 'submit' and e.get('in_liq')]
    if liqs:
        cnt['sessions_with_liquidations'] = 1
        # fast simulator: the cut goes to the START of the chunk whose range caused the forced close, found by position in the
        # trace (the loop index of the last `chunk` event before it), not by the time stamp the simulator gave the order
        last_chunk, chunk_of = None, {}
        for x in ev:
            if x['k'] == 'chunk':
                last_chunk = x['index']
            elif x['k'] == 'submit' and x.get('in_liq'):
                chunk_of[x['seq']] = last_chunk
        for e in rng.sample(liqs, min(2, len(liqs))):
            if fast and chunk_of.get(e['seq']) is not None:
                cuts[int(chunk_of[e['seq']])] = 'before_liquidation'
            else:
                cuts[idx(e['t']) - 1] = 'before_liquidation'
    big = max([gen.TF_MIN[r['timeframe']] for r in spec['routes']] + [gen.TF_MIN[d['timeframe']] for d in spec['data_routes']])
    cuts.setdefault(rng.randrange(1, n) // big * big + big // 2, 'mid_window')
    import math as _m
    fstep = None
    if fast:
        fstep = 0
        for r in spec['routes'] + spec['data_routes']:
            fstep = _m.gcd(fstep, gen.TF_MIN[r['timeframe']])
    fut = frontier.future_reads(reads, t0, fstep)
    cnt['frontier_future_reads'] = len(fut)
    for a_, b_, cur_, kind_ in fut[:3]:
        # a row beyond the simulated minute/chunk was touched: place a cut exactly at that row
        cuts[max(1, min(b_, a_ if a_ > cur_ else b_))] = 'read_frontier'
    cuts.setdefault(1, 'first_minute')
    if cnt0.get('sessions_with_unaligned_warmup'):
        cuts[1] = 'first_minute'
        cuts[2] = 'first_minutes'
        cuts[3] = 'first_minutes'
    cuts.setdefault(rng.randrange(1, n), 'random')
    cuts.setdefault(rng.randrange(1, n), 'random')
    chosen = []
    for k, name in cuts.items():
        if fast:
            k = (k // align) * align
        if 1 <= k < n - 1 and k not in [c[0] for c in chosen]:
            chosen.append((k, name))
    rng.shuffle(chosen)
    chosen = sorted(chosen, key=lambda c_: c_[1] not in ('read_frontier', 'before_liquidation', 'first_minute', 'first_minutes')
                    if cnt0.get('sessions_with_unaligned_warmup') else c_[1] not in ('read_frontier', 'before_liquidation'))[:job.get('max_cuts', 5)]
    lattice = next(iter(spec['candles'].values())).get('lattice')
    for k, name in chosen:
        t_cut = t0 + k * 60000
        pa = _prefix(ev, t_cut, fast, k)
        # resting prices at the cut
        active = {}
        for e in pa:
            if e['k'] == 'submit' and e['type'] != 'MARKET':
                active[e['o']] = e['price']
            elif e['k'] in ('exec_ret', 'cancel_ret') and e['status'] != 'ACTIVE':
                active.pop(e['o'], None)
        kind = rng.choice(['sweep', 'jump', 'random'])
        newc = {}
        for s, x in allc.items():
            tr = _tail(rng, x[w:], k, kind, list(active.values()), lattice)
            newc[s] = np.concatenate([x[:w], tr]) if w else tr
        B = session.run_session(spec, candles=newc)
        pb = _prefix(B['events'], t_cut, fast, k)
        cnt['pairs_compared'] = cnt.get('pairs_compared', 0) + 1
        cnt['pairs_fast' if fast else 'pairs_step'] = cnt.get('pairs_fast' if fast else 'pairs_step', 0) + 1
        cnt[f'cut:{name}'] = cnt.get(f'cut:{name}', 0) + 1
        cnt[f'tail:{kind}'] = cnt.get(f'tail:{kind}', 0) + 1
        cnt['prefix_events_compared'] = cnt.get('prefix_events_compared', 0) + len(pa)
        cnt['prefix_hook_events'] = cnt.get('prefix_hook_events', 0) + sum(1 for e in pa if e['k'] == 'hook')
        had_rest = any(e['k'] == 'submit' and e['type'] != 'MARKET' for e in pa)
        had_fill = any(e['k'] == 'exec_ret' and e['status'] == 'EXECUTED' for e in pa)
        if had_rest and had_fill:
            cnt['pairs_nontrivial'] = cnt.get('pairs_nontrivial', 0) + 1
            sigs.append(repr((fast, tuple(sorted(r['timeframe'] for r in spec['routes'])),
                              tuple(sorted(d['timeframe'] for d in spec['data_routes'])), name, kind,
                              tuple((e['k'], e.get('type')) for e in pa if e['k'] in ('submit', 'exec_ret', 'cancel_ret'))[:20])))
        if active:
            cnt['pairs_with_resting_orders_at_cut'] = cnt.get('pairs_with_resting_orders_at_cut', 0) + 1
        diff = None
        for i in range(max(len(pa), len(pb))):
            if i >= len(pa) or i >= len(pb) or _ser(pa[i]) != _ser(pb[i]):
                diff = i
                break
        if diff is None and fast:
            # second, clock-based cut over what a strategy can observe (hooks, order events, closed trades): whatever carries a
            # simulated time <= T_k must not depend on candle k either (a simulator whose clock lags behind its data)
            OBS = ('hook', 'submit', 'reject', 'exec_call', 'exec_ret', 'cancel_call', 'cancel_ret', 'trade_closed')

            def _obs(evs):
                out_, started_ = [], False
                for x in evs:
                    if x['k'] == 'daily':
                        started_ = True
                    if started_ and x['k'] in OBS and x['t'] <= t_cut:
                        out_.append(x)
                return out_
            oa, ob = _obs(ev), _obs(B['events'])
            cnt['pairs_fast_clock_cut'] = cnt.get('pairs_fast_clock_cut', 0) + 1
            for i in range(max(len(oa), len(ob))):
                if i >= len(oa) or i >= len(ob) or _ser(oa[i]) != _ser(ob[i]):
                    diff, pa, pb = i, oa, ob
                    break
        if diff is None and not fast:
            # second, position-based cut (robust against a simulator whose clock runs ahead together with its data)
            oa, ob = _ordinal_prefix(ev, k, n), _ordinal_prefix(B['events'], k, n)
            if oa is not None and ob is not None:
                cnt['pairs_ordinal_cut'] = cnt.get('pairs_ordinal_cut', 0) + 1
                if len(oa) != len(pa):
                    cnt['ordinal_cut_differs_from_clock_cut'] = cnt.get('ordinal_cut_differs_from_clock_cut', 0) + 1
                for i in range(max(len(oa), len(ob))):
                    if i >= len(oa) or i >= len(ob) or _ser(oa[i]) != _ser(ob[i]):
                        diff, pa, pb = i, oa, ob
                        break
            else:
                cnt['ordinal_cut_not_applicable'] = cnt.get('ordinal_cut_not_applicable', 0) + 1
        if diff is not None:
            ea = pa[diff] if diff < len(pa) else None
            eb = pb[diff] if diff < len(pb) else None
            kindk = (ea or eb)['k']
            key = f'prefix_differs:{kindk}'
            if kindk == 'hook':
                fields = [f for f in ('price', 'pos', 'bal', 'am', 'candles', 'decl') if (ea or {}).get(f) != (eb or {}).get(f)]
                key = 'prefix_differs:hook:' + '+'.join(fields)
                if fields == ['candles'] and ea and eb:
                    dk = [kk for kk in ea['candles'] if ea['candles'][kk] != eb['candles'].get(kk)]
                    key = 'prefix_differs:hook:candles:' + ('1m' if any(x.split('|')[1] == '1m' for x in dk) else 'tf')
            viol.append({'key': key,
                         'msg': f'runs with identical candles before index {k} ({name}, tail {kind}, '
                                f'{"fast" if fast else "normal"} simulator) diverge at prefix event {diff}/{len(pa)}: '
                                f'A={_ser(ea)[:500]} B={_ser(eb)[:500]}',
                         'witness': {'spec': spec, 'cut_index': k, 'cut_class': name, 'tail': kind, 'event_index': diff,
                                     'A': ea, 'B': eb, 'A_prev': pa[max(0, diff - 3):diff]}})
    res = {'viol': viol, 'cnt': cnt, 'sigs': sigs}
    if job['i'] < 3:
        res['sample'] = {'routes': [(r['symbol'], r['timeframe']) for r in spec['routes']], 'data_routes': spec['data_routes'],
                         'type': spec['config']['type'], 'fast': fast, 'warmup': w, 'cuts': chosen,
                         'base_events': len(ev)}
    return res


def make_jobs(tier, seed):
    rng = random.Random(10000 + seed)
    n = 150 if tier == 'quick' else 3000
    return [{'kind': 'base', 'seed': rng.randrange(1 << 30), 'i': i, 'fast': i % 5 in (1, 3),
             'max_cuts': 5 if tier == 'quick' else 7} for i in range(n)]
