"""Shadow accounts inside real backtest sessions: the reference accounts of vf/models.py are fed the order events of a
session trace (submit / cancel / first-time execution) and compared with the balances, positions and available margin
the tracer snapshotted from the real exchange objects at the same instants (real strategy layer, real simulators)."""
from fractions import Fraction as F

from . import models


def run_futures(events, cfg, symbols):
    """event-ordered variant: the fill takes effect at exec_call (before the hooks it triggers)"""
    viol, cnt = [], {}
    lev = cfg['futures_leverage']
    mdl = models.AccountFutures(cfg['starting_balance'], lev, cfg['fee'], symbols)
    single = len(symbols) == 1
    book = {}

    def c(k, n=1):
        cnt[k] = cnt.get(k, 0) + n

    def v(key, msg, ev):
        if not any(x['key'] == key for x in viol):
            viol.append({'key': key, 'msg': msg,
                         'witness': {'event': {kk: ev.get(kk) for kk in ('k', 'o', 'seq', 't', 'symbol', 'side', 'type', 'qty', 'price',
                                                                         'reduce_only', 'status')}}})

    def compare(ev, tag):
        acct = ev.get('acct')
        if not acct:
            return
        c('session_state_comparisons')
        wallet = acct['assets'].get('USDT')
        if wallet is not None and abs(wallet - float(mdl.wallet)) > 1e-9 * max(1.0, abs(wallet), cfg['starting_balance']):
            v('wallet_differs', f'{tag}: wallet {wallet} model {float(mdl.wallet)}', ev)
        pos, sym = ev.get('pos'), ev.get('symbol')
        if pos and sym in mdl.qty:
            if float(pos['qty']) != float(mdl.qty[sym]):
                v('position_qty_differs', f'{tag}: {sym} qty {pos["qty"]} model {mdl.qty[sym]}', ev)
            elif mdl.qty[sym] != 0 and not models.close_enough(pos['entry'], mdl.entry[sym]):
                v('entry_price_differs', f'{tag}: {sym} entry {pos["entry"]} model {float(mdl.entry[sym])}', ev)
            if pos.get('cur') is not None:
                mdl.price[sym] = pos['cur']
        multi_ok = False
        if not single and acct.get('curs'):
            # several symbols on one wallet: the mark price of every position at this instant comes with the snapshot
            for s_, px in acct['curs'].items():
                if s_ in mdl.price and px is not None:
                    mdl.price[s_] = px
            multi_ok = all(mdl.qty[s_] == 0 or acct['curs'].get(s_) is not None for s_ in mdl.qty)
            if multi_ok:
                c('session_margin_comparisons_multi_symbol')
        if (single or multi_ok) and isinstance(acct.get('am'), float):
            amm = mdl.available_margin()
            scale = max(1.0, abs(float(mdl.wallet)))
            c('session_margin_comparisons')
            if abs(acct['am'] - float(amm)) > 1e-9 * scale:
                v('available_margin_differs', f'{tag}: available margin {acct["am"]} model {float(amm)}', ev)

    for e in events:
        k = e['k']
        if k == 'hook' and e.get('hook') in ('before', 'after') and isinstance(e.get('pos'), list) and isinstance(e.get('price'), float):
            # the mark price behind unrealised PnL and margin: at a strategy step it is the close of the latest candle
            c('mark_price_checks')
            if e['pos'][2] is not None and e['pos'][2] != e['price']:
                v('mark_price_differs_from_last_close', f"{e['hook']}() at index {e.get('index')}: position.current_price "
                  f"{e['pos'][2]} but the current candle closes at {e['price']}", e)
        if k == 'submit':
            book[e['o']] = e
            mdl.submit(e['o'], e['symbol'], e['side'], e['qty'], e['price'], e['reduce_only'])
            compare(e, f'after submit #{e["o"]}')
        elif k == 'reject' and e.get('exc') == 'InsufficientMargin' and single and e.get('symbol') in mdl.qty:
            need, amm = mdl.needs(e['qty'], e['price']), mdl.available_margin()
            c('session_reject_decisions')
            if need <= amm and float(amm - need) > 1e-7 * max(1.0, float(need)):
                v('rejected_although_margin_sufficient', f'order {e["qty"]}@{e["price"]} needs {float(need)}, available {float(amm)}', e)
        elif k == 'cancel_ret' and e['status'] == 'CANCELED':
            mdl.cancel(e['o'])
            compare(e, f'after cancel #{e["o"]}')
        elif k == 'exec_call':
            if e['status'] == 'ACTIVE' and e['o'] in book:
                compare(e, f'before execute #{e["o"]}')
                o = book[e['o']]
                eff = mdl.fill(e['o'], o['symbol'], o['side'], o['qty'], o['price'], o['reduce_only'])
                c('session_fills')
                c('session_eff:' + eff)
        elif k == 'exec_ret' and e['status'] == 'EXECUTED':
            compare(e, f'after execute #{e["o"]}')
    return viol, cnt


def run_spot(events, cfg, symbols):
    viol, cnt = [], {}
    mdl = models.AccountSpot(cfg['starting_balance'], cfg['fee'], symbols)
    book = {}

    def c(k, n=1):
        cnt[k] = cnt.get(k, 0) + n

    def v(key, msg, ev):
        if not any(x['key'] == key for x in viol):
            viol.append({'key': key, 'msg': msg,
                         'witness': {'event': {kk: ev.get(kk) for kk in ('k', 'o', 'seq', 't', 'symbol', 'side', 'type', 'qty', 'price',
                                                                         'reduce_only', 'status')}}})

    def compare(ev, tag):
        acct = ev.get('acct')
        if not acct:
            return
        c('session_state_comparisons')
        q = acct['assets'].get('USDT')
        if q is not None:
            if q < 0:
                v('negative_quote_balance', f'{tag}: quote {q}', ev)
            if abs(q - float(mdl.quote)) > 1e-9 * max(1.0, abs(q), cfg['starting_balance']):
                v('quote_balance_differs', f'{tag}: quote {q} model {float(mdl.quote)}', ev)
        for s in symbols:
            b = acct['assets'].get(s.split('-')[0])
            if b is None:
                continue
            if b < 0:
                v('negative_base_balance', f'{tag}: {s} base {b}', ev)
            if not models.close_enough(b, mdl.base[s]):
                v('base_balance_differs', f'{tag}: {s} base {b} model {mdl.base[s]}', ev)
        pos, sym = ev.get('pos'), ev.get('symbol')
        if pos and sym in mdl.base:
            if pos['qty'] < 0:
                v('short_position_in_spot', f'{tag}: {sym} position {pos["qty"]}', ev)
            b = acct['assets'].get(sym.split('-')[0])
            if b is not None and not models.close_enough(pos['qty'], b):
                v('position_size_differs_from_base_balance', f'{tag}: position {pos["qty"]} base {b}', ev)

    for e in events:
        k = e['k']
        if k == 'submit':
            book[e['o']] = e
            must_reject, slack = mdl.check_submit(e['symbol'], e['side'], e['type'], abs(e['qty']), e['price'])
            scale = max(1.0, float(mdl.quote) if e['side'] == 'buy' else float(mdl.base[e['symbol']]))
            c('session_accept_decisions')
            if must_reject and abs(slack) > 1e-7 * scale:
                v('overspend_accepted' if e['side'] == 'buy' else 'oversell_accepted',
                  f'{e["side"]} {e["type"]} {e["qty"]}@{e["price"]} exceeds the model threshold by {slack:.6g}', e)
            mdl.submit(e['o'], e['symbol'], e['side'], e['type'], abs(e['qty']), e['price'])
            compare(e, f'after submit #{e["o"]}')
        elif k == 'reject' and e.get('exc') == 'InsufficientBalance' and e.get('symbol') in mdl.base:
            must_reject, slack = mdl.check_submit(e['symbol'], e['side'], e['type'], abs(e['qty']), e['price'])
            scale = max(1.0, float(mdl.quote) if e['side'] == 'buy' else float(mdl.base[e['symbol']]))
            c('session_reject_decisions')
            if not must_reject and abs(slack) > 1e-7 * scale:
                v('rejected_although_balance_sufficient', f'{e["side"]} {e["type"]} {e["qty"]}@{e["price"]}: slack {slack:.6g}', e)
        elif k == 'cancel_ret' and e['status'] == 'CANCELED':
            mdl.cancel(e['o'])
            compare(e, f'after cancel #{e["o"]}')
        elif k == 'exec_call':
            if e['status'] == 'ACTIVE' and e['o'] in book:
                o = book[e['o']]
                mdl.fill(e['o'], o['symbol'], o['side'], o['type'], o['qty'], o['price'])
                c('session_fills')
        elif k == 'exec_ret' and e['status'] == 'EXECUTED':
            compare(e, f'after execute #{e["o"]}')
    return viol, cnt
