"""Read-frontier guard (sanitizer-style instrumentation for C01).

The candle arrays handed to research.backtest are instances of an ndarray subclass. jesse deep-copies its inputs; the
copy it iterates is registered through __deepcopy__, and every __getitem__ / __setitem__ on that registered root array
records which rows were touched together with the simulated clock at that moment. A row beyond the minute (normal
simulator) or chunk (fast simulator) that is being simulated is a *suspicion* (a future read), not a verdict: C01 places
a differential cut exactly there.
"""
import numpy as np

REG = {'roots': [], 'reads': [], 'on': False}


class Guarded(np.ndarray):
    def __new__(cls, arr):
        return np.asarray(arr, dtype=float).view(cls)

    def __array_finalize__(self, obj):
        pass

    def __deepcopy__(self, memo):
        c = np.array(self, copy=True).view(Guarded)
        if REG['on']:
            REG['roots'].append(c)
        return c

    def _rows(self, key):
        n = self.shape[0]
        k = key[0] if isinstance(key, tuple) else key
        if isinstance(k, (int, np.integer)):
            k = int(k)
            return (k if k >= 0 else n + k, k if k >= 0 else n + k)
        if isinstance(k, slice):
            a, b, _ = k.indices(n)
            return (a, b - 1) if b > a else None
        return None

    def _note(self, key, kind):
        if not REG['on'] or self.ndim != 2 or not any(self is r for r in REG['roots']):
            return
        rows = self._rows(key)
        if rows is None:
            return
        try:
            from jesse.store import store
            t = store.app.time
        except Exception:
            t = None
        REG['reads'].append((rows[0], rows[1], t, kind))

    def __getitem__(self, key):
        self._note(key, 'r')
        return super().__getitem__(key)

    def __setitem__(self, key, value):
        self._note(key, 'w')
        return super().__setitem__(key, value)


def begin():
    REG.update(roots=[], reads=[], on=True)


def end():
    REG['on'] = False
    reads = REG['reads']
    REG['reads'] = []
    return reads


def future_reads(reads, t0, fast_step=None):
    """rows touched that lie beyond what is being simulated at that moment. t0 = timestamp of row 0.
    normal simulator: the clock is ts_i + 60000 while minute i is simulated -> rows <= i are legitimate. The loop head
      reads row i (its timestamp) just BEFORE it advances the clock: a single-row access of row == clock index that is
      immediately followed by a clock change is that benign read;
    fast simulator: the clock is the chunk start when the chunk is sliced -> rows < i + step are legitimate."""
    out = []
    n = len(reads)
    for j, (a, b, t, kind) in enumerate(reads):
        if t is None or t < t0:       # before the simulated clock is set (wall clock during warm-up) - not judged
            continue
        cur = int((t - t0) // 60000)
        if fast_step is None:
            allowed = cur - 1
            if a == b == cur and j + 1 < n and reads[j + 1][2] is not None and reads[j + 1][2] > t:
                continue
        else:
            allowed = cur + fast_step - 1
        if b > allowed:
            out.append((a, b, cur, kind))
    return out
