"""Runs one research.backtest session on the real code under the tracer."""
import copy
import traceback

import numpy as np

from . import gen
from .scripted import make_strategy
from .tracer import TR

EXCHANGE = 'Sandbox'


def isolate():
    """Harness-side isolation between sessions of one worker process: clears the configuration memo and rebuilds the
    sandbox drivers. (That research.backtest does not do this itself is the subject of C11; every other check
    keeps that defect out of its own verdict by starting each session from a clean memo.)"""
    import jesse.helpers as jh
    jh.CACHED_CONFIG.clear()


def rebuild_drivers():
    try:
        from jesse.services.api import api
        from jesse.exchanges import Sandbox
        from jesse.config import config
        api.drivers = {e: Sandbox(e) for e in config['app']['considering_exchanges']}
    except Exception:
        pass


def build_candles(spec):
    """spec['candles'] : {symbol: generator spec | {'explicit': [[...]]}} -> {symbol: ndarray}"""
    out = {}
    for sym, cs in spec['candles'].items():
        if 'explicit' in cs:
            out[sym] = np.array(cs['explicit'], dtype=float)
        else:
            out[sym] = gen.candles(cs)
            for ov in cs.get('overrides', []):     # [[index, [o,c,h,l]]...]
                i, (o, c, h, l) = ov
                out[sym][i, 1:5] = [o, c, h, l]
    return out


def build_args(spec, allc):
    """the argument objects of one research.backtest call (kept by callers that want to pass the same objects again)"""
    exchange = spec.get('exchange', EXCHANGE)
    w = int(spec.get('warmup', 0))
    cfg = dict(spec['config'])
    cfg.setdefault('exchange', exchange)
    cfg.setdefault('warm_up_candles', w)
    routes = [{'exchange': exchange, 'symbol': r['symbol'], 'timeframe': r['timeframe'],
               'strategy': r['strategy'] if 'strategy' in r else make_strategy(r['script'])} for r in spec['routes']]
    data_routes = [{'exchange': exchange, 'symbol': r['symbol'], 'timeframe': r['timeframe']}
                   for r in spec.get('data_routes', [])]
    trading, warm = {}, ({} if w else None)
    for sym, arr in allc.items():
        key = f'{exchange}-{sym}'
        trading[key] = {'exchange': exchange, 'symbol': sym, 'candles': arr[w:]}
        if w:
            warm[key] = {'exchange': exchange, 'symbol': sym, 'candles': arr[:w]}
    return {'config': cfg, 'routes': routes, 'data_routes': data_routes, 'candles': trading, 'warmup_candles': warm,
            'hyperparameters': spec.get('hyperparameters')}


def run_session(spec, subs=None, candles=None, keep_events=True, snapshots=True, pre_hook=None, args=None):
    """spec: {
        config: {starting_balance, fee, type, futures_leverage, futures_leverage_mode, warm_up_candles},
        routes: [{symbol, timeframe, script}], data_routes: [{symbol, timeframe}],
        candles: {symbol: genspec}, warmup: int (number of leading 1m candles used as warm-up),
        fast: bool, hyperparameters: dict|None, exchange: name }
    args: argument objects from build_args (same objects are passed on; default: built here)
    Returns {'events', 'result', 'error', 'candles' (as passed to jesse, trading part), 'warmup'}"""
    from jesse.research import backtest
    allc = candles if candles is not None else build_candles(spec)
    w = int(spec.get('warmup', 0))
    if args is None:
        args = build_args(spec, allc)
    if not spec.get('no_isolate'):
        isolate()
    out = {'error': None, 'result': None}
    TR.begin(subs=subs, keep_events=keep_events, snapshots=snapshots)
    try:
        if pre_hook:
            pre_hook()
        if not spec.get('no_isolate'):
            _drivers_after_routes()
        out['result'] = backtest(args['config'], args['routes'], args['data_routes'], args['candles'], args['warmup_candles'],
                                 hyperparameters=args['hyperparameters'], fast_mode=bool(spec.get('fast')),
                                 **(spec.get('options') or {}))
    except Exception as ex:
        out['error'] = {'type': type(ex).__name__, 'msg': str(ex)[:300], 'tb': traceback.format_exc()[-1500:]}
    finally:
        out['events'] = TR.end()
        _undo_driver_patch()
    out['candles'] = {s: a[w:] for s, a in allc.items()}
    out['warm'] = {s: a[:w] for s, a in allc.items()} if w else {}
    return out


_orig_initiate = [None]


def _drivers_after_routes():
    """The sandbox drivers are created once, when jesse.services.api is first imported (C11's subject). For all
    other checks the harness re-creates them right after the router installs the routes of each session."""
    from jesse.routes import router
    if _orig_initiate[0] is None:
        _orig_initiate[0] = router.initiate.__func__ if hasattr(router.initiate, '__func__') else router.initiate
    orig = type(router).initiate

    def initiate(self, routes, data_routes=None):
        r = orig(self, routes, data_routes)
        rebuild_drivers()
        return r

    router.initiate = initiate.__get__(router)


def _undo_driver_patch():
    from jesse.routes import router
    if 'initiate' in router.__dict__:
        del router.__dict__['initiate']
