"""Shared machinery for the indicator checks (C13, C14, C15): enumeration of the public indicator functions, parameter
sets drawn from their signatures, structured candle series and a call wrapper that normalises results to {field: array}."""
import inspect
import random

import numpy as np

from . import gen

SOURCE_TYPES = ['close', 'high', 'low', 'open', 'volume', 'hl2', 'hlc3', 'ohlc4']
SAFE_MATYPES = [0, 1, 2, 3, 4, 5, 6, 9, 10, 11, 12, 13, 14, 15, 16, 17, 18, 20, 21, 22, 23, 25, 26, 27, 28, 30, 31, 32, 33, 34,
                35, 36, 37, 38, 39]
SECOND_SERIES = {'beta': 'benchmark_candles', 'rsmk': 'candles_compare'}


def indicators():
    import jesse.indicators as ta
    out = []
    for n in sorted(dir(ta)):
        f = getattr(ta, n)
        if n.startswith('_') or not callable(f) or inspect.isclass(f):
            continue
        try:
            sig = inspect.signature(f)
        except (TypeError, ValueError):
            continue
        ps = list(sig.parameters)
        if not ps or ps[0] != 'candles':
            continue
        out.append((n, f, sig))
    return out


def series(kind, n, seed):
    rng = random.Random(seed)
    if kind == 'walk':
        c = gen.candles({'seed': seed, 'n': n, 'vol': 0.01, 'start': 100.0, 'zero_vol_p': 0.0})
    elif kind == 'trend':
        c = gen.candles({'seed': seed, 'n': n, 'vol': 0.004, 'trend': rng.choice([0.003, -0.003]), 'start': 250.0, 'zero_vol_p': 0.0})
    elif kind == 'flat':
        c = gen.candles({'seed': seed, 'n': n, 'vol': 0.0, 'flat_p': 1.0, 'start': 50.0, 'zero_vol_p': 0.0})
        # not entirely constant: a step half way (pure constants make many indicators 0/0)
        c[n // 2:, 1:5] *= 1.01
    elif kind == 'spikes':
        c = gen.candles({'seed': seed, 'n': n, 'vol': 0.002, 'start': 100.0, 'zero_vol_p': 0.0})
        for i in rng.sample(range(5, n - 1), max(2, n // 40)):
            c[i, 3] *= 1.2
            c[i, 2] = c[i, 3] * 0.99
            c[i + 1, 1] = c[i, 2]
            c[i + 1, 3] = max(c[i + 1, 3], c[i + 1, 1])
    elif kind == 'alternating':
        c = gen.candles({'seed': seed, 'n': n, 'vol': 0.0, 'flat_p': 0.0, 'start': 100.0, 'zero_vol_p': 0.0})
        for i in range(n):
            o = 100.0 if i % 2 == 0 else 101.0
            cl = 101.0 if i % 2 == 0 else 100.0
            c[i, 1:5] = [o, cl, 101.5, 99.5]
    elif kind == 'gappy':
        c = gen.candles({'seed': seed, 'n': n, 'vol': 0.003, 'start': 100.0, 'gap_p': 0.35, 'gap_size': 0.02, 'zero_vol_p': 0.0})
    elif kind == 'lattice':
        # coarse tick grid: ties between highs / lows / closes are frequent
        c = gen.candles({'seed': seed, 'n': n, 'vol': 0.006, 'start': 100.0, 'lattice': 0.5, 'zero_vol_p': 0.0})
    elif kind == 'huge':
        c = gen.candles({'seed': seed, 'n': n, 'vol': 0.01, 'start': 3.1e7, 'zero_vol_p': 0.0})
    elif kind == 'tiny':
        # (alt/BTC price levels: window ranges go below 1e-8, the default absolute tolerance of np.isclose)
        c = gen.candles({'seed': seed, 'n': n, 'vol': 0.01, 'start': rng.choice([2.3e-6, 4.1e-8]), 'zero_vol_p': 0.0})
    elif kind == 'volspike':
        # one candle early in the series trades an enormous volume (a listing candle, a data glitch): every running total
        # that is not taken per window carries its rounding error from then on
        c = gen.candles({'seed': seed, 'n': n, 'vol': 0.006, 'start': 100.0, 'zero_vol_p': 0.0})
        c[min(n - 2, rng.choice([5, 20, 40])), 5] = rng.choice([2e14, 5e13])
        return c
    elif kind == 'flattail':
        # a market that stops trading: the series ends with a long run of flat zero-volume candles at the last close (windows
        # with zero range and zero volume at the END, where single-value results are taken); one more flat run in the middle
        c = gen.candles({'seed': seed, 'n': n, 'vol': 0.006, 'start': 100.0, 'zero_vol_p': 0.0})
        tail = min(n - 5, rng.choice([16, 35, 70]))
        mid = n // 3
        for a_, b_ in ((mid, min(mid + rng.choice([15, 40]), n - tail - 1)), (n - tail, n)):
            for i in range(max(a_, 1), b_):
                c[i, 1:5] = c[i - 1, 2]
                c[i, 5] = 0.0
        return c
    elif kind == 'outside':
        # alternating narrow and wide candles around a slowly moving centre on a coarse grid: the high rises and the low falls
        # by exactly the same amount again and again (ties in directional-movement rules, inside/outside bars)
        c = gen.candles({'seed': seed, 'n': n, 'vol': 0.0, 'flat_p': 0.0, 'start': 100.0, 'zero_vol_p': 0.0})
        centre = 100.0
        for i in range(n):
            if rng.random() < 0.2:
                centre += rng.choice([-0.5, 0.5, 1.0, -1.0])
            half = 1.0 if i % 2 == 0 else rng.choice([2.0, 2.0, 1.5, 3.0])
            o = centre + rng.choice([-0.5, 0.0, 0.5])
            cl = centre + rng.choice([-0.5, 0.0, 0.5])
            c[i, 1:5] = [o, cl, centre + half, centre - half]
    elif kind == 'zerovol':
        # minutes without a trade, as jesse's own gap filling writes them: flat at the previous close, volume 0
        c = gen.candles({'seed': seed, 'n': n, 'vol': 0.006, 'start': 100.0, 'zero_vol_p': 0.0})
        for i in rng.sample(range(3, n), max(3, n // 15)):
            c[i, 1:5] = c[i - 1, 2]
            c[i, 5] = 0.0
        return c
    elif kind == 'quietstart':
        # a fresh listing / a feed that delivers volume only later: the series STARTS with a run of zero-volume candles (flat at
        # the first price in half of the cases), trading begins afterwards. Whatever is decided from `the` volume column as a
        # whole differs between a prefix inside the run and the full series
        c = gen.candles({'seed': seed, 'n': n, 'vol': 0.006, 'start': 100.0, 'zero_vol_p': 0.0})
        run = min(max(2, n - 3), rng.choice([30, 50]))
        c[:run, 5] = 0.0
        if rng.random() < 0.5:
            c[:run, 1:5] = c[0, 1]
            c[run, 1] = c[0, 1]
            c[run, 3] = max(c[run, 3], c[run, 1])
            c[run, 4] = min(c[run, 4], c[run, 1])
        return c
    elif kind == 'ties':
        # an ordinary market in which, now and then, a candle repeats the previous one exactly (same OHLC, fresh volume) or
        # closes exactly where the previous one closed: rules that compare a candle with its neighbour hit their `equal` branch
        # at isolated positions in the middle of the series
        c = gen.candles({'seed': seed, 'n': n, 'vol': 0.006, 'start': 100.0, 'zero_vol_p': 0.0})
        for i in sorted(rng.sample(range(2, n), max(3, n // 9))):
            if rng.random() < 0.6:
                c[i, 1:5] = c[i - 1, 1:5]
            else:
                c[i, 2] = c[i - 1, 2]
                c[i, 3] = max(c[i, 3], c[i, 2])
                c[i, 4] = min(c[i, 4], c[i, 2])
        return c
    elif kind == 'constant':
        c = gen.candles({'seed': seed, 'n': n, 'vol': 0.0, 'flat_p': 1.0, 'start': 75.0, 'zero_vol_p': 0.0})
    elif kind == 'monotone':
        c = gen.candles({'seed': seed, 'n': n, 'vol': 0.0, 'flat_p': 0.0, 'start': 100.0, 'zero_vol_p': 0.0})
        for i in range(n):
            o = 100.0 + i * 0.5
            c[i, 1:5] = [o, o + 0.5, o + 0.6, o - 0.1]
    else:
        raise ValueError(kind)
    c[:, 5] = np.where(c[:, 5] <= 0, 1.0, c[:, 5])
    return c


def special_positions(c):
    """Indices of candles that tie with their predecessor (close, typical price, high or low) or did not trade."""
    if len(c) < 3:
        return []
    tp = (c[:, 3] + c[:, 4] + c[:, 2]) / 3
    m = (c[1:, 2] == c[:-1, 2]) | (tp[1:] == tp[:-1]) | (c[1:, 3] == c[:-1, 3]) | (c[1:, 4] == c[:-1, 4]) | (c[1:, 5] == 0)
    return [int(i) + 1 for i in np.flatnonzero(m)]


def period_keys(sig):
    """names of the period-like integer parameters of an indicator signature"""
    out = []
    for k, p in sig.parameters.items():
        d = p.default
        lk = k.lower()
        if k in ('candles', 'sequential') or d is inspect.Parameter.empty:
            continue
        if isinstance(d, int) and not isinstance(d, bool) and 'matype' not in lk and lk != 'devtype' and (
                any(x in lk for x in ('period', 'length', 'window', 'range', 'lookback', 'bars')) or lk in ('p', 'q', 'r', 's', 'u', 'k', 'd', 'order')):
            out.append(k)
    return out


def param_sets(name, sig, rng, how_many, small=False):
    """default parameters first, then `how_many` non-default sets drawn from the signature"""
    defaults = {k: p.default for k, p in sig.parameters.items()
                if k not in ('candles', 'sequential') and p.default is not inspect.Parameter.empty}
    # parameters annotated float whose default happens to be written as an int (mult: float = 0)
    float_annotated = {k for k, p in sig.parameters.items() if p.annotation is float or p.annotation == 'float'}
    out = [dict()]
    periods = [2, 3, 5, 8, 14, 21, 30] if small else [2, 3, 5, 8, 14, 21, 34, 60]

    def is_period(lk, d):
        return isinstance(d, int) and not isinstance(d, bool) and 'matype' not in lk and lk != 'devtype' and (
            any(x in lk for x in ('period', 'length', 'window', 'range', 'lookback', 'bars')) or lk in ('p', 'q', 'r', 's', 'u', 'k', 'd', 'order'))

    # boundary sets first: every period-like parameter at the smallest legal values
    if how_many > 0:
        for v in (1, 2, 3, 50):
            # (50: a long memory - what a recursive indicator returns then still depends on candles 200+ bars back)
            kw = {k: v for k, d in defaults.items() if is_period(k.lower(), d)}
            if kw:
                out.append(kw)
        # deterministic combination sets: every float-valued parameter away from its default together with each
        # non-default deviation type (defects that need a parameter COMBINATION, e.g. devtype=1 with mult != 0)
        for v in (1, 2):
            kw = {}
            for k, d in defaults.items():
                if k.lower() == 'devtype':
                    kw[k] = v
                elif isinstance(d, bool):
                    continue
                elif isinstance(d, float) or (isinstance(d, int) and k in float_annotated):
                    kw[k] = float(d) * (1.5 if v == 1 else 0.5) if d else float(v)
            if kw and any(not isinstance(x, int) or k.lower() != 'devtype' for k, x in kw.items()):
                out.append(kw)
        # relation sets: the values of two integer parameters exchanged (vis_std > sed_std, a `fast` period above the `slow` one
        # ...): code that assumes the usual order indexes backwards past the start of its arrays
        ints = [k for k, d in defaults.items() if isinstance(d, int) and not isinstance(d, bool) and d >= 2
                and 'matype' not in k.lower() and k.lower() != 'devtype' and k not in float_annotated]
        for a_ in range(len(ints)):
            for b_ in range(a_ + 1, len(ints)):
                if defaults[ints[a_]] != defaults[ints[b_]] and len(out) < 40:
                    out.append({ints[a_]: defaults[ints[b_]], ints[b_]: defaults[ints[a_]]})
        # offsets / shifts / displacements at zero and below (legal integers: an offset counts in either direction)
        for k, d in defaults.items():
            if isinstance(d, int) and not isinstance(d, bool) and any(x in k.lower() for x in ('offset', 'shift', 'displacement')):
                out.append({k: 0})
                out.append({k: -(abs(d) + 1)})
        # every indicator that takes a moving-average selector: a few selector types with everything else at its default
        for k, d in defaults.items():
            if 'matype' in k.lower() and isinstance(d, int):
                for m_ in (1, 3, 10, 12, 16):
                    # (16: the Gaussian filter strips leading NaNs of an intermediate series and pads its result again)
                    if m_ != d:
                        out.append({k: m_})
    for _ in range(how_many):
        kw = {}
        for k, d in defaults.items():
            lk = k.lower()
            if k == 'source_type':
                kw[k] = rng.choice(SOURCE_TYPES)
            elif 'matype' in lk:
                kw[k] = rng.choice(SAFE_MATYPES[:12])
            elif lk == 'devtype':
                kw[k] = rng.choice([0, 1, 2])
            elif isinstance(d, bool):
                kw[k] = rng.choice([True, False])
            elif isinstance(d, int) and k in float_annotated:
                kw[k] = float(d) * rng.choice([0.5, 1.0, 1.5, 2.0]) if d else rng.choice([0.0, 0.5, 1.0, 2.0])
            elif isinstance(d, int):
                if any(x in lk for x in ('period', 'length', 'window', 'range', 'lookback', 'bars')) or lk in ('p', 'q', 'r', 's', 'u', 'k', 'd', 'order'):
                    if any(x in lk for x in ('fast', 'short', 'min_')):
                        kw[k] = rng.choice(periods[:4])
                    elif any(x in lk for x in ('slow', 'long', 'max_')):
                        kw[k] = rng.choice(periods[4:])
                    else:
                        kw[k] = rng.choice(periods)
                else:
                    kw[k] = d
            elif isinstance(d, float):
                kw[k] = d * rng.choice([0.5, 1.0, 1.5]) if d else rng.choice([0.0, 0.5, 1.0])
            elif isinstance(d, str) and lk == 'direction':
                kw[k] = rng.choice(['long', 'short'])
            else:
                continue
        out.append(kw)
    return out


def call(name, f, sig, candles, kw, sequential, second=None):
    args = [candles]
    kwargs = dict(kw)
    if name in SECOND_SERIES:
        kwargs[SECOND_SERIES[name]] = second
    if 'sequential' in sig.parameters:
        kwargs['sequential'] = sequential
    return f(*args, **kwargs)


def fields(res):
    """normalise a result to an ordered {field name: value}"""
    if hasattr(res, '_fields'):
        return {k: getattr(res, k) for k in res._fields}
    if isinstance(res, tuple):
        return {f'f{i}': v for i, v in enumerate(res)}
    return {'value': res}


def as_array(v):
    if isinstance(v, np.ndarray):
        return v
    if isinstance(v, (list, tuple)):
        try:
            return np.array(v)
        except Exception:
            return np.array(v, dtype=object)
    return None


def scale_of(candles, field_values):
    """natural scale for absolute tolerances: price scale or the magnitude of the output itself"""
    try:
        m = np.nanmax(np.abs(np.asarray(field_values, dtype=float)))
        if not np.isfinite(m):
            m = 0.0
    except Exception:
        m = 0.0
    # differences of near-cancelling price-scale quantities (macd of a flat series) carry rounding noise of the PRICE scale
    try:
        c = np.asarray(candles, dtype=float)
        pm = float(np.nanmax(np.abs(c[:, 1:5]))) if c.ndim == 2 and c.shape[1] >= 5 else 0.0
        if not np.isfinite(pm):
            pm = 0.0
    except Exception:
        pm = 0.0
    return max(1.0, float(m), pm)


def equal_values(a, b, rel=1e-9, absl=1e-12, scale=1.0):
    """NaN-aware comparison of two equally shaped arrays (numeric or object); returns index of first difference or None"""
    a, b = np.asarray(a), np.asarray(b)
    if a.shape != b.shape:
        return -1
    if a.dtype == object or b.dtype == object or a.dtype.kind in 'US' or b.dtype.kind in 'US':
        for i, (x, y) in enumerate(zip(a.tolist(), b.tolist())):
            if x == y:
                continue
            if isinstance(x, (int, float)) and isinstance(y, (int, float)) and not isinstance(x, bool):
                if x != x and y != y:
                    continue
                if abs(x - y) <= rel * max(abs(x), abs(y)) + absl * scale:
                    continue
            return i
        return None
    a = a.astype(float)
    b = b.astype(float)
    both_nan = np.isnan(a) & np.isnan(b)
    both_inf = np.isinf(a) & np.isinf(b) & (np.sign(a) == np.sign(b))
    with np.errstate(invalid='ignore'):
        ok = np.abs(a - b) <= rel * np.maximum(np.abs(a), np.abs(b)) + absl * scale
    ok = ok | both_nan | both_inf
    bad = np.flatnonzero(~ok)
    return int(bad[0]) if len(bad) else None
