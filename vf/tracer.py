"""Instrumentation layer: wraps attributes of the real jesse classes/modules from the harness (no source hooks).

One global tracer per worker process. `install()` is idempotent; `begin()` starts a fresh event log.
Subscribers (online monitors) are callables ev -> None invoked synchronously for every event, in the
calling thread - the simulator is single-threaded, so monitor state cannot race with the state it shadows.
"""
import hashlib

import numpy as np


class Tracer:
    def __init__(self):
        self.installed = False
        self.on = False
        self.events = []
        self.subs = []
        self.seq = 0
        self.orders = {}       # id(order) -> ordinal
        self.order_refs = []   # ordinal -> order (keeps the object alive, so id() is never reused)
        self.in_liq = 0
        self.in_match = 0
        self.cur_hook = None
        self.missing = []      # optional patch points that were not found
        self.digest_candles = True
        self.keep_events = True
        self.snapshots = True

    # ---------------------------------------------------------------------------------------
    def begin(self, subs=None, keep_events=True, snapshots=True):
        self.install()
        self.on = True
        self.events = []
        self.subs = list(subs or [])
        self.seq = 0
        self.orders = {}
        self.order_refs = []
        self.in_liq = 0
        self.in_match = 0
        self.cur_hook = None
        self.keep_events = keep_events
        self.snapshots = snapshots

    def end(self):
        self.on = False
        ev = self.events
        return ev

    def emit(self, kind, **kw):
        from jesse.store import store
        self.seq += 1
        kw['k'] = kind
        kw['seq'] = self.seq
        kw['t'] = store.app.time
        if self.keep_events:
            self.events.append(kw)
        for s in self.subs:
            s(kw)
        return kw

    def oid(self, order):
        k = self.orders.get(id(order))
        if k is None:
            k = len(self.order_refs)
            self.orders[id(order)] = k
            self.order_refs.append(order)
        return k

    # ---------------------------------------------------------------------------------------
    def pos_snapshot(self, exchange, symbol):
        import jesse.services.selectors as selectors
        p = selectors.get_position(exchange, symbol)
        if p is None:
            return None
        return {'qty': p.qty, 'entry': p.entry_price, 'cur': p.current_price, 'prev_qty': p.previous_qty}

    def acct_snapshot(self, exchange):
        import jesse.services.selectors as selectors
        e = selectors.get_exchange(exchange)
        d = {'assets': dict(e.assets)}
        if e.type == 'futures':
            try:
                d['am'] = float(e.available_margin)
            except Exception as ex:  # position without strategy etc.
                d['am'] = f'raise:{type(ex).__name__}'
            try:
                from jesse.store import store
                d['curs'] = {p.symbol: p.current_price for p in store.positions.storage.values() if p.exchange_name == exchange}
            except Exception:
                pass
        else:
            d['stop_sum'] = dict(e.stop_orders_sum)
            d['limit_sum'] = dict(e.limit_orders_sum)
        return d

    # ---------------------------------------------------------------------------------------
    def install(self):
        if self.installed:
            return
        self.installed = True
        from jesse.models import Order
        from jesse.store.state_candles import CandlesState
        import jesse.modes.backtest_mode as bm
        tr = self

        # ---- Order.__init__ ----
        orig_init = Order.__init__

        def init(order, attributes=None, **kw):
            if not tr.on:
                return orig_init(order, attributes, **kw)
            try:
                orig_init(order, attributes, **kw)
            except Exception as ex:
                a = attributes or {}
                tr.emit('reject', exc=type(ex).__name__, msg=str(ex)[:200], symbol=a.get('symbol'), side=a.get('side'),
                        type=a.get('type'), qty=a.get('qty'), price=a.get('price'), reduce_only=a.get('reduce_only'),
                        exchange=a.get('exchange'), in_liq=tr.in_liq, hook=tr.cur_hook)
                raise
            k = tr.oid(order)
            ev = dict(o=k, symbol=order.symbol, exchange=order.exchange, side=order.side, type=order.type,
                      qty=order.qty, price=order.price, reduce_only=order.reduce_only, status=order.status,
                      created_at=order.created_at, in_liq=tr.in_liq, in_match=tr.in_match, hook=tr.cur_hook)
            if tr.snapshots:
                ev['pos'] = tr.pos_snapshot(order.exchange, order.symbol)
                ev['acct'] = tr.acct_snapshot(order.exchange)
            tr.emit('submit', **ev)

        Order.__init__ = init

        # ---- Order.execute ----
        orig_exec = Order.execute

        def execute(order, *a, **kw):
            if not tr.on:
                return orig_exec(order, *a, **kw)
            k = tr.oid(order)
            ev = dict(o=k, status=order.status, in_liq=tr.in_liq, in_match=tr.in_match, hook=tr.cur_hook,
                      symbol=order.symbol, exchange=order.exchange)
            if tr.snapshots:
                ev['pos'] = tr.pos_snapshot(order.exchange, order.symbol)
                ev['acct'] = tr.acct_snapshot(order.exchange)
            tr.emit('exec_call', **ev)
            try:
                r = orig_exec(order, *a, **kw)
            except Exception as ex:
                tr.emit('exec_raise', o=k, exc=type(ex).__name__, msg=str(ex)[:200])
                raise
            ev = dict(o=k, status=order.status, executed_at=order.executed_at, symbol=order.symbol,
                      exchange=order.exchange, side=order.side, type=order.type, qty=order.qty, price=order.price,
                      reduce_only=order.reduce_only, in_liq=tr.in_liq)
            if tr.snapshots:
                ev['pos'] = tr.pos_snapshot(order.exchange, order.symbol)
                ev['acct'] = tr.acct_snapshot(order.exchange)
            tr.emit('exec_ret', **ev)
            return r

        Order.execute = execute

        # ---- Order.cancel ----
        orig_cancel = Order.cancel

        def cancel(order, *a, **kw):
            if not tr.on:
                return orig_cancel(order, *a, **kw)
            k = tr.oid(order)
            ev = dict(o=k, status=order.status, hook=tr.cur_hook, symbol=order.symbol, exchange=order.exchange)
            if tr.snapshots:
                ev['acct'] = tr.acct_snapshot(order.exchange)
            tr.emit('cancel_call', **ev)
            r = orig_cancel(order, *a, **kw)
            ev = dict(o=k, status=order.status, canceled_at=order.canceled_at, symbol=order.symbol,
                      exchange=order.exchange)
            if tr.snapshots:
                ev['acct'] = tr.acct_snapshot(order.exchange)
                ev['pos'] = tr.pos_snapshot(order.exchange, order.symbol)
            tr.emit('cancel_ret', **ev)
            return r

        Order.cancel = cancel

        # ---- candle store ----
        orig_add = CandlesState.add_candle

        def add_candle(cs, candle, exchange, symbol, timeframe, *a, **kw):
            if tr.on:
                if timeframe == '1m':
                    tr.emit('add1m', exchange=exchange, symbol=symbol, c=[float(x) for x in candle],
                            in_match=tr.in_match)
                else:
                    tr.emit('addtf', exchange=exchange, symbol=symbol, tf=timeframe, c=[float(x) for x in candle])
            return orig_add(cs, candle, exchange, symbol, timeframe, *a, **kw)

        CandlesState.add_candle = add_candle

        orig_multi = CandlesState.add_multiple_1m_candles

        def add_multi(cs, candles, exchange, symbol, *a, **kw):
            r = orig_multi(cs, candles, exchange, symbol, *a, **kw)
            if tr.on:
                tr.emit('addmulti', exchange=exchange, symbol=symbol, ts0=float(candles[0, 0]),
                        ts1=float(candles[-1, 0]), n=len(candles), pos=tr.pos_snapshot(exchange, symbol))
            return r

        CandlesState.add_multiple_1m_candles = add_multi

        # ---- backtest_mode module-level functions (optional patch points) ----
        def wrap_mod(name, enter, leave):
            f = getattr(bm, name, None)
            if f is None:
                tr.missing.append(name)
                return

            def w(*a, **kw):
                if not tr.on:
                    return f(*a, **kw)
                enter(a, kw)
                try:
                    return f(*a, **kw)
                finally:
                    leave(a, kw)
            w.__wrapped__ = f
            setattr(bm, name, w)

        def liq_extra(a):
            import jesse.services.selectors as selectors
            from jesse.store import store
            p = selectors.get_position(a[1], a[2])
            d = {'liq_total': store.app.total_liquidations}
            if p is not None:
                try:
                    d.update(mode=p.mode, liq_price=float(p.liquidation_price), bankr=float(p.bankruptcy_price),
                             wallet=float(p.exchange.wallet_balance),
                             active=len([o for o in store.orders.get_active_orders(a[1], a[2]) if o.is_active]))
                except Exception as ex:
                    d['extra_error'] = repr(ex)
            return d

        def liq_enter(a, kw):
            tr.in_liq += 1
            tr.emit('liq_enter', c=[float(x) for x in a[0]], exchange=a[1], symbol=a[2],
                    pos=tr.pos_snapshot(a[1], a[2]), **liq_extra(a))

        def liq_leave(a, kw):
            tr.in_liq -= 1
            tr.emit('liq_exit', exchange=a[1], symbol=a[2], pos=tr.pos_snapshot(a[1], a[2]), in_match=tr.in_match, **liq_extra(a))

        wrap_mod('_check_for_liquidations', liq_enter, liq_leave)

        def m_enter(a, kw):
            tr.in_match += 1
            tr.emit('match_enter', c=[float(x) for x in a[0]], exchange=a[1], symbol=a[2])

        def m_leave(a, kw):
            tr.in_match -= 1
            tr.emit('match_exit', exchange=a[1], symbol=a[2])

        wrap_mod('_simulate_price_change_effect', m_enter, m_leave)

        def mm_enter(a, kw):
            tr.in_match += 1
            c = a[0]
            tr.emit('mmatch_enter', ts0=float(c[0][0]), n=len(c), exchange=a[1], symbol=a[2],
                    first=[float(x) for x in c[0]])

        def mm_leave(a, kw):
            tr.in_match -= 1
            tr.emit('mmatch_exit', exchange=a[1], symbol=a[2])

        wrap_mod('_simulate_price_change_effect_multiple_candles', mm_enter, mm_leave)

        # fast simulator: one event per chunk, carrying the loop index (a function of positions only, never of candle content)
        wrap_mod('_simulate_new_candles', lambda a, kw: tr.emit('chunk', index=int(a[1]), step=int(a[2])), lambda a, kw: None)

        # ---- trade log ----
        from jesse.store.state_completed_trades import ClosedTrades
        orig_close = ClosedTrades.close_trade

        def close_trade(ct, position):
            n0 = len(ct.trades)
            r = orig_close(ct, position)
            if tr.on and len(ct.trades) > n0:
                for t in ct.trades[n0:]:
                    def g(f):
                        try:
                            return float(f())
                        except Exception as ex:
                            return f'raise:{type(ex).__name__}'
                    tr.emit('trade_closed', symbol=t.symbol, exchange=t.exchange, type=t.type, n_new=len(ct.trades) - n0,
                            qty=g(lambda: t.qty), entry=g(lambda: t.entry_price), exit=g(lambda: t.exit_price),
                            pnl=g(lambda: t.pnl), fee=g(lambda: t.fee), opened_at=t.opened_at, closed_at=t.closed_at,
                            orders=[tr.oid(o) for o in t.orders], total=len(ct.trades))
            return r

        ClosedTrades.close_trade = close_trade

        sd = getattr(bm, 'save_daily_portfolio_balance', None)
        if sd is None:
            tr.missing.append('save_daily_portfolio_balance')
        else:
            def save_daily(*a, **kw):
                r = sd(*a, **kw)
                if tr.on:
                    from jesse.store import store
                    tr.emit('daily', value=float(store.app.daily_balance[-1]), n=len(store.app.daily_balance),
                            initial=bool(kw.get('is_initial') or (a and a[0])))
                return r
            bm.save_daily_portfolio_balance = save_daily


TR = Tracer()


def digest(arr) -> str:
    a = np.ascontiguousarray(arr, dtype=float)
    return f'{a.shape[0]}:' + hashlib.blake2b(a.tobytes(), digest_size=8).hexdigest()
