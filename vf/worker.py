"""Worker process: python -m vf.worker <check module> <jobs.json> <out.jsonl>"""
import faulthandler
import importlib
import json
import sys
import traceback


def main():
    faulthandler.enable()
    modname, jf, of = sys.argv[1:4]
    from . import env
    env.use_repo()
    mod = importlib.import_module(modname)
    with open(jf) as f:
        jobs = json.load(f)
    with open(of, 'w') as out:
        for job in jobs:
            out.write(json.dumps({'start': job['_i']}) + '\n')
            out.flush()
            try:
                res = mod.run_job(job) or {}
            except Exception:
                res = {'error': traceback.format_exc()}
            res['_i'] = job['_i']
            out.write(json.dumps(res, default=_default) + '\n')
            out.flush()


def _default(o):
    try:
        import numpy as np
        if isinstance(o, np.generic):
            return o.item()
        if isinstance(o, np.ndarray):
            return o.tolist()
    except Exception:
        pass
    return repr(o)


if __name__ == '__main__':
    main()
