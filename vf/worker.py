"""Worker process: python -m vf.worker <check module> <jobs.json> <out.jsonl>"""
import faulthandler
import importlib
import json
import signal
import sys
import traceback


class JobTimeout(BaseException):
    pass


def _alarm(*a):
    raise JobTimeout()


def main():
    faulthandler.enable()
    signal.signal(signal.SIGALRM, _alarm)
    modname, jf, of = sys.argv[1:4]
    from . import env
    env.use_repo()
    mod = importlib.import_module(modname)
    with open(jf) as f:
        jobs = json.load(f)
    with open(of, 'w') as out:
        for job in jobs:
            out.write(json.dumps({'start': job['_i']}) + '\n')
            out.flush()
            try:
                signal.alarm(int(getattr(mod, 'JOB_TIMEOUT', 300)))
                res = mod.run_job(job) or {}
                signal.alarm(0)
            except JobTimeout:
                res = {'error': 'job watchdog fired (inconclusive, not a verdict):\n' + traceback.format_exc()[-1500:]}
            except Exception:
                signal.alarm(0)
                res = {'error': traceback.format_exc()}
            res['_i'] = job['_i']
            out.write(json.dumps(res, default=_default) + '\n')
            out.flush()


def _default(o):
    try:
        import numpy as np
        if isinstance(o, np.generic):
            return o.item()
        if isinstance(o, np.ndarray):
            return o.tolist()
    except Exception:
        pass
    return repr(o)


if __name__ == '__main__':
    main()
