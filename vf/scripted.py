"""The scripted strategy family (workload). One real jesse Strategy subclass, parameterised by a JSON script.

Decisions are a deterministic function of (script seed, strategy index, hook name, occurrence within the step)
and of what the strategy has observed so far (its own price), so two runs that present identical observations up
to time t make identical decisions up to t (C01, C11, C12 rely on this).
"""
import hashlib
import struct

import numpy as np

from .tracer import TR, digest

_cls_cache = {}


def _u(seed, *parts) -> float:
    h = hashlib.blake2b(repr((seed,) + parts).encode(), digest_size=8).digest()
    return struct.unpack('<Q', h)[0] / 2.0 ** 64


def make_strategy(script: dict):
    from jesse.strategies import Strategy
    import jesse.helpers as jh

    class Scripted(Strategy):
        SCRIPT = script

        def __init__(self):
            super().__init__()
            self.s = self.SCRIPT
            self._k = 0            # decision counter within a step
            self._last_step = -1
            self.obs = []          # per-hook observations are emitted through the tracer
            self._cancel_answer = None

        # ------------------------------------------------------------------ helpers
        def rnd(self, tag):
            if self.index != self._last_step:
                self._last_step = self.index
                self._k = 0
            self._k += 1
            return _u(self.s['seed'], self.index, tag, self._k)

        def _px(self, p):
            step = self.s.get('lattice')
            if step:
                p = round(round(p / step) * step, 10)
                if p <= 0:
                    p = step
            return p

        def _qty(self):
            s = self.s
            if s.get('fixed_qty'):
                return float(s['fixed_qty'])
            frac = s.get('size_frac', 0.2)
            if self.exchange_type == 'spot':
                cap = self.balance
                lev = 1
            else:
                cap = self.available_margin
                lev = self.leverage
            q = frac * cap * lev / self.price
            dec = s.get('qty_dec', 3)
            q = np.floor(q * 10 ** dec) / 10 ** dec
            return float(max(q, 10 ** -dec))

        def _split(self, q, n):
            """n positive parts that add up to q exactly in decimal arithmetic (jesse adds quantities as decimals)."""
            from decimal import Decimal, ROUND_FLOOR
            dec = self.s.get('qty_dec', 3) + 2
            D = Decimal(repr(float(q)))
            unit = Decimal(1).scaleb(-dec)
            part = (D / n).quantize(unit, rounding=ROUND_FLOOR)
            if n == 1 or part <= 0:
                return [float(D)]
            last = D - part * (n - 1)
            return [float(part)] * (n - 1) + [float(last)]

        def _observe(self, name, **extra):
            if not TR.on:
                return
            from jesse.routes import router
            ev = {'hook': name, 'symbol': self.symbol, 'index': self.index}
            mode = self.s.get('observe', 'digest')
            if mode != 'none':
                try:
                    ev['price'] = float(self.price)
                except Exception as ex:
                    ev['price'] = f'raise:{type(ex).__name__}'
                p = self.position
                ev['pos'] = [p.qty, p.entry_price, p.current_price]
                ev['bal'] = float(self.balance)
                try:
                    ev['am'] = float(self.available_margin)
                except Exception as ex:
                    ev['am'] = f'raise:{type(ex).__name__}'
                if mode == 'digest':
                    d = {}
                    for r in router.all_formatted_routes:
                        key = f"{r['symbol']}|{r['timeframe']}"
                        if key in d:
                            continue
                        try:
                            arr = self.get_candles(r['exchange'], r['symbol'], r['timeframe'])
                            d[key] = digest(arr)
                        except Exception as ex:
                            d[key] = f'raise:{type(ex).__name__}'
                        try:
                            cc = self_current(r['exchange'], r['symbol'], r['timeframe'])
                            d[key + '|cur'] = digest(cc)
                        except Exception as ex:
                            d[key + '|cur'] = f'raise:{type(ex).__name__}'
                    ev['candles'] = d
            if self.s.get('use_shared') and name == 'before':
                sv = self.shared_vars
                sv['verif_counter'] = sv.get('verif_counter', 0) + 1
                ev['shared_counter'] = sv['verif_counter']
            if self.s.get('use_indicator') and name == 'before':
                try:
                    import jesse.indicators as ta
                    val = ta.sma(self.get_candles(self.exchange, self.symbol, '1m'), self.s['use_indicator'])
                    ev['ind'] = None if val != val else float(val)
                except Exception as ex:
                    ev['ind'] = f'raise:{type(ex).__name__}'
            if self.s.get('read_foreign') and name == 'before' and self.index % 10 == 0:
                # candles of pairs / timeframes that are NOT routed in this session: a fresh process raises; nothing an earlier
                # session left behind may answer instead
                out_ = {}
                for sy_, tf_ in self.s['read_foreign']:
                    try:
                        c_ = self.get_candles(self.exchange, sy_, tf_)
                        out_[f'{sy_}|{tf_}'] = [len(c_), [float(x) for x in c_[-1]] if len(c_) else None]
                    except Exception as ex:
                        out_[f'{sy_}|{tf_}'] = f'raise:{type(ex).__name__}'
                ev['foreign'] = out_
            if self.s.get('log_hp'):
                ev['hp'] = None if self.hp is None else {k: (v if isinstance(v, (int, float)) else repr(v)) for k, v in self.hp.items()}
                ev['hp_types'] = None if self.hp is None else {k: type(v).__name__ for k, v in self.hp.items()}
            ev.update(extra)
            TR.emit('hook', **ev)
            for m in HOOK_MONITORS:
                m(self, name, ev)

        def _maybe_raise(self, name):
            ra = self.s.get('raise_at')
            if ra and ra['hook'] == name and self.index >= ra['index']:
                raise RuntimeError(f'injected fault in {name} at index {self.index}')

        def _enter_hook(self, name):
            prev = TR.cur_hook
            TR.cur_hook = name
            return prev

        # ------------------------------------------------------------------ jesse API
        def _maybe_log_error(self):
            # option log_error: the strategy reports something through its logger now and then (log_type='error')
            n_ = self.s.get('log_error')
            if n_ and self.index % n_ == n_ - 1:
                self.log(f'noted at step {self.index}', log_type='error')

        def before(self):
            self._cancel_answer = None
            if self.s.get('read_metrics') and self.index % self.s['read_metrics'] == 0:
                # strategies may look at their running performance (Strategy.metrics)
                try:
                    m_ = self.metrics
                    self._metrics_reads = getattr(self, '_metrics_reads', 0) + (1 if m_ else 0)
                except Exception:
                    pass
            self._maybe_log_error()
            self._observe('before')
            self._maybe_raise('before')

        def after(self):
            self._observe('after', decl=self._decl())
            self._maybe_raise('after')

        def _decl(self):
            def f(x):
                if x is None:
                    return None
                try:
                    return np.array(x, dtype=float).reshape(-1, 2).tolist()
                except Exception:
                    return repr(x)
            return {'buy': f(self.buy), 'sell': f(self.sell), 'sl': f(self.stop_loss), 'tp': f(self.take_profit)}

        def _enter_draw(self):
            ae = self.s.get('abs_exits')
            if ae and not (ae[0] * 1.002 < self.price < ae[1] * 0.998):
                return 2.0
            if self.s.get('decide_on_ohl'):
                # the decision depends on the shape of the current trading candle (open / high / low), not only on closes
                c = self.current_candle
                shape = (bool(c[2] >= c[1]), int((c[3] - c[4]) / c[2] * 2000), int(abs(c[1] - c[2]) / c[2] * 2000))
                return _u(self.s['seed'], self.index, 'enter', shape)
            return _u(self.s['seed'], self.index, 'enter')

        def should_long(self):
            s = self.s
            if s.get('sides', 'long') == 'short':
                return False
            if s.get('enter_at') is not None:
                return self.index in s['enter_at'] and s.get('enter_side', 'long') == 'long'
            return self._enter_draw() < s.get('p_enter', 0.1)

        def should_short(self):
            s = self.s
            if s.get('sides', 'long') == 'long' or self.exchange_type == 'spot':
                return False
            if s.get('enter_at') is not None:
                return self.index in s['enter_at'] and s.get('enter_side', 'long') == 'short'
            p = s.get('p_enter', 0.1)
            u = self._enter_draw()
            if s.get('sides') == 'short':
                return u < p
            return p <= u < 2 * p       # disjoint from the long band: never both

        def should_cancel_entry(self):
            pol = self.s.get('cancel_policy', 'always')
            if pol == 'always':
                ans = True
            elif pol == 'never':
                ans = False
            else:
                ans = self.rnd('cancel') < 0.5
            self._cancel_answer = ans
            if TR.on:
                TR.emit('cancel_answer', symbol=self.symbol, index=self.index, answer=ans)
            return ans

        def _entry_rows(self, side):
            s = self.s
            style = s.get('entry', 'market')
            if style == 'mixed':
                style = ['market', 'limit', 'stop', 'ladder'][int(self.rnd('style') * 4)]
            q = self._qty()
            d = s.get('entry_dist', 0.002)
            price = self.price
            sign = 1 if side == 'long' else -1
            if style == 'market':
                rows = [(q, price)]
            elif style == 'limit':
                rows = [(q, self._px(price * (1 - sign * d)))]
            elif style == 'stop':
                rows = [(q, self._px(price * (1 + sign * d)))]
            elif style == 'near':
                # around the 0.015 % market band, on either side
                off = [0.0, 0.0001, 0.00015, 0.0002, 0.0003, 0.001][int(self.rnd('noff') * 6)]
                rows = [(q, price * (1 + (1 if self.rnd('nsg') < 0.5 else -1) * off))]
            else:  # ladder: 2-3 points on the limit side, optionally first at market
                n = 2 + int(self.rnd('n') * 2)
                parts = self._split(q, n)
                rows = []
                for i, qq in enumerate(parts):
                    if i == 0 and self.rnd('lm') < 0.5:
                        rows.append((qq, price))
                    else:
                        rows.append((qq, self._px(price * (1 - sign * d * (i + 1)))))
            # never two rows with the same price and drop non-positive prices
            seen, out = set(), []
            for qq, pp in rows:
                if pp in seen or pp <= 0:
                    continue
                seen.add(pp)
                out.append((qq, pp))
            if s.get('tie_entry') and out and style != 'market' and abs(out[-1][1] / price - 1) > 0.0005:
                # ... unless asked for: the last row is split into two orders at ONE price (the second one fills exactly at the
                # open of what is left of the minute after the first)
                qq, pp = out[-1]
                halves = self._split(qq, 2)
                if len(halves) == 2:
                    out[-1:] = [(halves[0], pp), (halves[1], pp)]
            return out

        def _exit_rows(self, side, ref, qty, ref_lo=None, ref_hi=None):
            """(sl_rows, tp_rows) for a position of size qty. Well-formed by construction: every stop-loss lies strictly
            on the losing side of the lowest possible entry price (ref_lo) and every take-profit strictly on the winning
            side of the highest one (ref_hi) - jesse replaces wrong-sided initial exits by market orders, a documented
            convenience that is outside the properties and is not driven."""
            s = self.s
            sign = 1 if side == 'long' else -1
            lo = ref if ref_lo is None else ref_lo
            hi = ref if ref_hi is None else ref_hi
            worst, best = (lo, hi) if side == 'long' else (hi, lo)
            step = s.get('lattice') or 0.0
            sl = tp = None

            def beyond(p, anchor, direction):
                # direction +1: must be > anchor, -1: must be < anchor (by at least one lattice step / 1e-6 relative)
                margin = step if step else abs(anchor) * 1e-6
                if direction > 0 and not p > anchor:
                    p = anchor + margin
                if direction < 0 and not p < anchor:
                    p = anchor - margin
                return p

            if s.get('sl'):
                n = s.get('sl_points', 1)
                parts = self._split(qty, n)
                if s.get('sl_oversize') and self.exchange_type != 'spot':
                    parts = [qty] * n
                sl = [(q, beyond(self._px(worst * (1 - sign * s['sl'] * (1 + 0.5 * i))), worst, -sign))
                      for i, q in enumerate(parts)]
                sl = [r for r in self._dedup(sl) if r[1] > 0]
            if s.get('tp'):
                n = s.get('tp_points', 1)
                parts = self._split(qty, n)
                tp = [(q, beyond(self._px(best * (1 + sign * s['tp'] * (1 + 0.5 * i))), best, sign))
                      for i, q in enumerate(parts)]
                tp = [r for r in self._dedup(tp) if r[1] > 0]
            return sl or None, tp or None

        @staticmethod
        def _dedup(rows):
            seen, out = set(), []
            for q, p in rows:
                if p in seen or p <= 0:
                    continue
                seen.add(p)
                out.append((q, p))
            return out

        def go_long(self):
            prev = self._enter_hook('go_long')
            try:
                rows = self._entry_rows('long')
                self.buy = rows
                if self.s.get('exits_in', 'open') == 'go' and self.exchange_type != 'spot':
                    # (a row within the market band is filled at the CURRENT price, not at its own: both are possible entries)
                    ps = [p for q, p in rows] + [float(self.price)]
                    sl, tp = self._exit_rows('long', None, sum(q for q, p in rows), min(ps), max(ps))
                    sl = self._stop_inside_ladder('long', rows, sl)
                    sl = self._wrong_sided_stop('long', rows, sl)
                    if sl:
                        self.stop_loss = sl
                    if tp:
                        self.take_profit = tp
                self._observe('go_long', decl=self._decl())
                self._maybe_raise('go_long')
            finally:
                TR.cur_hook = prev

        def go_short(self):
            prev = self._enter_hook('go_short')
            try:
                rows = self._entry_rows('short')
                self.sell = rows
                if self.s.get('exits_in', 'open') == 'go':
                    ps = [p for q, p in rows] + [float(self.price)]
                    sl, tp = self._exit_rows('short', None, sum(q for q, p in rows), min(ps), max(ps))
                    sl = self._stop_inside_ladder('short', rows, sl)
                    sl = self._wrong_sided_stop('short', rows, sl)
                    if sl:
                        self.stop_loss = sl
                    if tp:
                        self.take_profit = tp
                self._observe('go_short', decl=self._decl())
                self._maybe_raise('go_short')
            finally:
                TR.cur_hook = prev

        def _stop_inside_ladder(self, side, rows, sl):
            """option sl_inside_ladder: a protective stop between the first and the second rung of an entry ladder - on the losing
            side of the first fill (a proper stop when the position opens), but not of the planned average entry"""
            if not (self.s.get('sl_inside_ladder') and sl and len(rows) >= 2):
                return sl
            prices = sorted({p for q, p in rows}, reverse=(side == 'long'))
            if len(prices) < 2:
                return sl
            mid = self._px((prices[0] + prices[1]) / 2)
            lo, hi = min(prices[0], prices[1]), max(prices[0], prices[1])
            cur = float(self.price)
            inside = lo < mid < hi and ((side == 'long' and mid < cur * (1 - 0.0005)) or (side == 'short' and mid > cur * (1 + 0.0005)))
            if not inside:
                return sl
            from .tracer import TR as _TR
            _TR.emit('note', what='stop_inside_ladder')
            return [(sum(q for q, p in rows), mid)]

        def _wrong_sided_stop(self, side, rows, sl):
            """option wrong_side_sl_in_go: the stop declared with a single market entry lies on the WRONG side of the entry price
            (jesse replaces such a row by a market order when the position opens); on_open_position declares a proper stop"""
            self._wrong_sided = False
            p_ = self.s.get('wrong_side_sl_in_go')
            if not (p_ and sl and len(rows) == 1 and self.rnd('wss') < p_ and self.exchange_type != 'spot'):
                return sl
            price = float(self.price)
            if abs(rows[0][1] / price - 1) > 1e-12:
                return sl
            self._wrong_sided = True
            TR.emit('note', what='wrong_sided_initial_stop', symbol=self.symbol)
            return [(rows[0][0], self._px(price * (1.003 if side == 'long' else 0.997)))]

        def _side(self):
            return 'long' if self.is_long else 'short'

        def on_open_position(self, order):
            prev = self._enter_hook('on_open_position')
            try:
                if self.s.get('p_open_liquidate') and self.rnd('oliq') < self.s['p_open_liquidate']:
                    # close at once with a market order submitted from the fill callback
                    self.liquidate()
                elif self.s.get('abs_exits'):
                    # fixed absolute exit levels and the same size every trade (identical declarations across trades)
                    lo, hi = self.s['abs_exits']
                    q = abs(self.position.qty)
                    if self.is_long:
                        self.stop_loss, self.take_profit = [(q, lo)], [(q, hi)]
                    else:
                        self.stop_loss, self.take_profit = [(q, hi)], [(q, lo)]
                elif self.s.get('exits_in', 'open') == 'open':
                    sl, tp = self._exit_rows(self._side(), self.position.entry_price, abs(self.position.qty))
                    if sl:
                        self.stop_loss = sl
                    if tp:
                        self.take_profit = tp
                elif getattr(self, '_wrong_sided', False):
                    # the stop declared with the entry was on the wrong side: declare a proper one now
                    sl, _tp = self._exit_rows(self._side(), self.position.entry_price, abs(self.position.qty))
                    if sl:
                        self.stop_loss = sl
                    self._wrong_sided = False
                if self.s.get('on_open_add') and self.exchange_type != 'spot' and not (
                        self.s.get('p_open_liquidate') and self.position.is_close):
                    # scale in at the market from inside the fill callback (re-declared entry at the current price)
                    dec = self.s.get('qty_dec', 3)
                    qa = max(round(abs(self.position.qty) * self.s['on_open_add'], dec), 10 ** -dec)
                    if self.is_long:
                        self.buy = [(qa, self.price)]
                    elif self.is_short:
                        self.sell = [(qa, self.price)]
                self._observe('on_open_position', decl=self._decl(), o=TR.oid(order))
                self._maybe_raise('on_open_position')
            finally:
                TR.cur_hook = prev

        def on_increased_position(self, order):
            prev = self._enter_hook('on_increased_position')
            try:
                if self.s.get('on_increased') in ('retarget', 'retarget_price'):
                    # (retarget_price: the new exits are anchored at the price the callback sees, not at the average entry)
                    ref = self.position.entry_price if self.s['on_increased'] == 'retarget' else float(self.price)
                    sl, tp = self._exit_rows(self._side(), ref, abs(self.position.qty))
                    if sl:
                        self.stop_loss = sl
                    if tp:
                        self.take_profit = tp
                self._observe('on_increased_position', decl=self._decl(), o=TR.oid(order))
                self._maybe_raise('on_increased_position')
            finally:
                TR.cur_hook = prev

        def on_reduced_position(self, order):
            prev = self._enter_hook('on_reduced_position')
            try:
                kind = self.s.get('on_reduced')
                if kind == 'liquidate':
                    self.liquidate()
                elif kind == 'add_market' and self.exchange_type != 'spot':
                    # scale back in at the market from inside the callback of the reducing fill
                    dec = self.s.get('qty_dec', 3)
                    qa = max(round(abs(self.position.qty) * 0.25, dec), 10 ** -dec)
                    if self.is_long:
                        self.buy = [(qa, self.price)]
                    elif self.is_short:
                        self.sell = [(qa, self.price)]
                elif kind == 'be' and self.s.get('sl'):
                    # move the stop to break-even for the remaining size (only if that is still a stop)
                    be = self._px(self.position.entry_price)
                    ok = (self.is_long and be < self.price * (1 - 0.0005)) or \
                         (self.is_short and be > self.price * (1 + 0.0005))
                    if ok:
                        self.stop_loss = [(abs(self.position.qty), be)]
                elif kind == 'tp_rest' and self.s.get('tp'):
                    sign = 1 if self.is_long else -1
                    self.take_profit = [(abs(self.position.qty), self._px(self.price * (1 + sign * self.s['tp'])))]
                self._observe('on_reduced_position', decl=self._decl(), o=TR.oid(order))
                self._maybe_raise('on_reduced_position')
            finally:
                TR.cur_hook = prev

        def on_close_position(self, order):
            prev = self._enter_hook('on_close_position')
            try:
                if self.s.get('on_close_broker') and self.exchange_type != 'spot':
                    # a fresh resting order placed through the broker from the callback of the closing fill
                    dec = self.s.get('qty_dec', 3)
                    qa = max(round(self._qty() * 0.5, dec), 10 ** -dec) if hasattr(self, '_qty') else 10 ** -dec
                    px = float(self.price)
                    dist = self.s.get('on_close_broker_dist', 0.004)
                    if self.rnd('ocb') < 0.5:
                        self.broker.buy_at(qa, self._px(px * (1 - dist)))
                    else:
                        self.broker.sell_at(qa, self._px(px * (1 + dist)))
                self._observe('on_close_position', o=TR.oid(order))
                self._maybe_raise('on_close_position')
            finally:
                TR.cur_hook = prev

        def on_cancel(self):
            if self.s.get('on_cancel_broker') and self.exchange_type != 'spot' and self.position.is_close \
                    and self.rnd('ocn') < self.s['on_cancel_broker']:
                # a fresh resting order placed through the broker from the hook that reports the cancellation of the entry
                dec = self.s.get('qty_dec', 3)
                qa = max(round(self._qty() * 0.5, dec), 10 ** -dec)
                px = float(self.price)
                dist = self.s.get('on_close_broker_dist', 0.004)
                if self.rnd('ocs') < 0.5:
                    self.broker.buy_at(qa, self._px(px * (1 - dist)))
                else:
                    self.broker.sell_at(qa, self._px(px * (1 + dist)))
                TR.emit('note', what='order_from_on_cancel')
            self._observe('on_cancel')

        def update_position(self):
            prev = self._enter_hook('update_position')
            try:
                s = self.s
                kinds = s.get('update_kinds') or []
                if s.get('close_at') and self.index in s['close_at']:
                    # close at market now; should_long / should_short run again in this same bar once the position is flat
                    self.liquidate()
                    return
                if s.get('add_at') and self.index in s['add_at']:
                    # add to the position with a market order (re-declared entry)
                    if self.is_long:
                        self.buy = [(self._qty(), self.price)]
                    else:
                        self.sell = [(self._qty(), self.price)]
                if kinds and self.rnd('upd') < s.get('p_update', 0.0):
                    kind = kinds[int(self.rnd('updk') * len(kinds))]
                    sign = 1 if self.is_long else -1
                    q = abs(self.position.qty)
                    price = self.price
                    if kind == 'add_market':
                        # scale in with a market order (re-declared entry); exits are usually re-declared in on_increased_position
                        qa = max(round(q * 0.5, self.s.get('qty_dec', 3)), 10 ** -self.s.get('qty_dec', 3))
                        if self.is_long:
                            self.buy = [(qa, price)]
                        else:
                            self.sell = [(qa, price)]
                    elif kind == 'liquidate':
                        self.liquidate()
                    elif kind == 'trail_sl' and s.get('sl'):
                        self.stop_loss = [(q, self._px(price * (1 - sign * s['sl'])))]
                    elif kind in ('trail_sl_inplace', 'move_tp_inplace') and s.get('sl' if kind == 'trail_sl_inplace' else 'tp'):
                        # modify the declaration IN PLACE (jesse hands the formatted numpy array back through the property):
                        # the price of the last row is moved, quantities stay
                        import numpy as _np
                        cur = self.stop_loss if kind == 'trail_sl_inplace' else self.take_profit
                        dist = s['sl'] if kind == 'trail_sl_inplace' else s['tp']
                        sgn = -sign if kind == 'trail_sl_inplace' else sign
                        newp = self._px(price * (1 + sgn * dist * 1.1))
                        if isinstance(cur, _np.ndarray) and cur.ndim == 2 and len(cur) >= 1 and \
                                abs(_np.sum(cur[:, 0]) - q) <= 1e-9 * max(1.0, q) and \
                                all(abs(newp - r_[1]) > abs(price) * 1e-6 for r_ in cur[:-1]):
                            cur[-1, 1] = newp
                        elif kind == 'trail_sl_inplace':
                            self.stop_loss = [(q, newp)]
                        else:
                            self.take_profit = [(q, newp)]
                    elif kind == 'tp_ladder' and s.get('tp'):
                        n = 1 + int(self.rnd('tpn') * 3)
                        parts = self._split(q, n)
                        self.take_profit = self._dedup(
                            [(qq, self._px(price * (1 + sign * s['tp'] * (1 + 0.5 * i)))) for i, qq in enumerate(parts)])
                    elif kind == 'sl_ladder' and s.get('sl'):
                        n = 1 + int(self.rnd('sln') * 3)
                        parts = self._split(q, n)
                        self.stop_loss = self._dedup(
                            [(qq, self._px(price * (1 - sign * s['sl'] * (1 + 0.5 * i)))) for i, qq in enumerate(parts)])
                    elif kind == 'reduce_market':
                        # take part of the position off at the current price (a MARKET reduction), the rest at a distance
                        parts = self._split(q, 2)
                        rows = [(parts[0], price)]
                        if len(parts) > 1 and s.get('tp'):
                            rows.append((parts[1], self._px(price * (1 + sign * s['tp']))))
                        self.take_profit = rows
                    elif kind in ('reweight_tp', 'reweight_sl') and s.get('tp' if kind == 'reweight_tp' else 'sl') \
                            and self.exchange_type != 'spot':
                        # the same ladder prices (anchored at the entry price) with unequal quantities whose order alternates from
                        # call to call: consecutive declarations are permutations of each other column by column, not row by row
                        from decimal import Decimal, ROUND_FLOOR
                        D = Decimal(repr(float(q)))
                        unit = Decimal(1).scaleb(-(self.s.get('qty_dec', 3) + 2))
                        small = (D / 4).quantize(unit, rounding=ROUND_FLOOR)
                        if small > 0 and D - small != small:
                            parts = [float(small), float(D - small)]
                            if self.index % 2:
                                parts.reverse()
                            dist = s['tp'] if kind == 'reweight_tp' else s['sl']
                            sgn = sign if kind == 'reweight_tp' else -sign
                            entry = self.position.entry_price
                            prices = [self._px(entry * (1 + sgn * dist * (1 + 0.5 * i))) for i in range(2)]
                            # only when both levels are still resting levels (beyond the current price on their side)
                            ok = all((pp - price) * sgn > abs(price) * 0.0005 for pp in prices) and prices[0] != prices[1]
                            if ok:
                                rows = list(zip(parts, prices))
                                if kind == 'reweight_tp':
                                    self.take_profit = rows
                                else:
                                    self.stop_loss = rows
                    elif kind in ('partial_market_sl', 'partial_market_tp') and self.exchange_type != 'spot':
                        # a single exit row at EXACTLY the current price for part of the position (a partial exit at the market)
                        half = self._split(q, 2)[0]
                        if kind == 'partial_market_sl':
                            self.stop_loss = [(half, price)]
                        else:
                            self.take_profit = [(half, price)]
                    elif kind == 'double_market_exit' and self.exchange_type != 'spot':
                        # two exits at the current price in one step: a full-size stop-loss and a half-size take-profit both
                        # become MARKET orders; the first one closes the position while the second is still pending
                        half = self._split(q, 2)[0]
                        self.stop_loss = [(q, price)]
                        self.take_profit = [(half, price)]
                    elif kind == 'withdraw_tp':
                        # the target ladder is withdrawn altogether (re-declared as empty): no take-profit order may survive
                        self.take_profit = []
                    elif kind == 'withdraw_sl':
                        self.stop_loss = []
                    elif kind == 'near_tp':
                        # an exit within / around the 0.015 % market band
                        off = [0.0, 0.0001, 0.00015, 0.0002, 0.0003][int(self.rnd('near') * 5)]
                        self.take_profit = [(q, price * (1 + sign * off))]
                self._observe('update_position', decl=self._decl())
                self._maybe_raise('update_position')
            finally:
                TR.cur_hook = prev

        def before_terminate(self):
            self._observe('before_terminate')

        def terminate(self):
            self._observe('terminate')

        def hyperparameters(self):
            out = []
            for h in self.s.get('hyperparameters') or []:
                h = dict(h)
                h['type'] = int if h['type'] == 'int' else float
                out.append(h)
            return out

        def dna(self):
            # a strategy may choose its DNA per route (symbol / timeframe); the lookup tolerates attributes that are not set
            by = self.s.get('dna_by_route')
            if by:
                return by.get(f'{self.symbol}|{self.timeframe}', by.get('default', ''))
            return self.s.get('dna') or ''

    def self_current(exchange, symbol, tf):
        from jesse.store import store
        return store.candles.get_current_candle(exchange, symbol, tf)

    Scripted.__name__ = 'Scripted'
    return Scripted


# online monitors called from every hook: f(strategy, hook_name, event)
HOOK_MONITORS = []
