"""Seeded candle generators (the workload). Candle rows are jesse's [timestamp, open, close, high, low, volume]."""
import math
import random

import numpy as np

T0 = 1609459200000  # 2021-01-01T00:00:00Z, a multiple of every timeframe up to 1D
MIN = 60_000


def _round_step(x, step):
    return round(round(x / step) * step, 10)


def candles(spec: dict) -> np.ndarray:
    """spec: {seed, n, family, start(price), vol, gap_p, gap_size, flat_p, lattice(step or None), trend, t0}"""
    rng = random.Random(spec['seed'])
    n = spec['n']
    vol = spec.get('vol', 0.002)
    gap_p = spec.get('gap_p', 0.0)
    gap_size = spec.get('gap_size', 0.003)
    flat_p = spec.get('flat_p', 0.0)
    step = spec.get('lattice')
    trend = spec.get('trend', 0.0)
    zero_vol_p = spec.get('zero_vol_p', 0.05)
    t0 = spec.get('t0', T0)
    price = float(spec.get('start', 100.0))
    out = np.zeros((n, 6))
    prev_close = price
    for i in range(n):
        o = prev_close
        if i > 0 and rng.random() < gap_p:
            o = prev_close * (1 + rng.uniform(-gap_size, gap_size))
        if rng.random() < flat_p:
            c = h = l = o
        else:
            c = o * (1 + trend + rng.gauss(0, vol))
            up = abs(rng.gauss(0, vol)) * o
            dn = abs(rng.gauss(0, vol)) * o
            kind = rng.random()
            if kind < 0.08:
                up = 0.0       # close or open is the high
            elif kind < 0.16:
                dn = 0.0
            elif kind < 0.2:
                c = o          # doji
            h = max(o, c) + up
            l = min(o, c) - dn
        if step:
            o, c = _round_step(o, step), _round_step(c, step)
            h = max(_round_step(h, step), o, c)
            l = min(_round_step(l, step), o, c)
            if l <= 0:
                l = step
                o, c, h = max(o, l), max(c, l), max(h, l)
        else:
            l = max(l, price * 1e-6)
            c = max(c, l)
        v = 0.0 if rng.random() < zero_vol_p else round(rng.uniform(1, 1000), 3)
        out[i] = [t0 + i * MIN, o, c, h, l, v]
        prev_close = c
    return out


def normalise(c: np.ndarray) -> np.ndarray:
    """The documented normalisation of the step simulator: open := previous close, with the matching
    high/low bound. Independent re-implementation (does not import jesse)."""
    out = np.array(c, dtype=float, copy=True)
    for i in range(1, len(out)):
        pc = out[i - 1, 2]
        if out[i, 1] != pc:
            out[i, 1] = pc
            out[i, 3] = max(out[i, 3], pc)
            out[i, 4] = min(out[i, 4], pc)
    return out


def normalise_fast(c: np.ndarray, step: int) -> np.ndarray:
    """What the fast simulator stores: only the first candle of each chunk is open-normalised."""
    out = np.array(c, dtype=float, copy=True)
    for i in range(step, len(out), step):
        pc = out[i - 1, 2]
        if out[i, 1] != pc:
            out[i, 1] = pc
            out[i, 3] = max(out[i, 3], pc)
            out[i, 4] = min(out[i, 4], pc)
    return out


TF_MIN = {'1m': 1, '3m': 3, '5m': 5, '15m': 15, '30m': 30, '45m': 45, '1h': 60, '2h': 120, '3h': 180, '4h': 240,
          '6h': 360, '8h': 480, '12h': 720, '1D': 1440, '3D': 4320, '1W': 10080, '1M': 43200}


def aggregate(c1m: np.ndarray, tf: str) -> np.ndarray:
    """One row per started window of the timeframe, windows aligned to multiples of the timeframe length."""
    w = TF_MIN[tf] * MIN
    n = len(c1m)
    if n == 0:
        return np.zeros((0, 6))
    keys = (c1m[:, 0] // w).astype(np.int64)
    starts = np.concatenate(([0], np.flatnonzero(np.diff(keys)) + 1))
    ends = np.concatenate((starts[1:], [n]))
    out = np.empty((len(starts), 6))
    out[:, 0] = keys[starts].astype(float) * w
    out[:, 1] = c1m[starts, 1]
    out[:, 2] = c1m[ends - 1, 2]
    out[:, 3] = np.maximum.reduceat(c1m[:, 3], starts)
    out[:, 4] = np.minimum.reduceat(c1m[:, 4], starts)
    # summed per window with the same routine jesse uses on a slice (pairwise np.sum), not reduceat
    out[:, 5] = [c1m[a:b, 5].sum() for a, b in zip(starts, ends)]
    return out


def random_spec(rng: random.Random, n: int, family: str = None, start: float = None) -> dict:
    family = family or rng.choice(['walk', 'walk', 'gappy', 'flatty', 'lattice', 'lattice_gappy', 'trend', 'tiny', 'huge'])
    spec = {'seed': rng.randrange(1 << 30), 'n': n, 'family': family,
            'start': start if start is not None else rng.choice([100.0, 250.0, 37.5, 1234.5]),
            'vol': rng.choice([0.0005, 0.001, 0.002, 0.004, 0.01])}
    if family == 'gappy':
        spec.update(gap_p=rng.choice([0.1, 0.3, 0.5]), gap_size=rng.choice([0.001, 0.004, 0.01]))
    elif family == 'flatty':
        spec.update(flat_p=rng.choice([0.2, 0.5]), gap_p=rng.choice([0.0, 0.1]))
    elif family == 'lattice':
        spec.update(lattice=rng.choice([0.5, 1.0, 0.25]), start=100.0, vol=rng.choice([0.004, 0.008, 0.015]),
                    flat_p=rng.choice([0.0, 0.1]))
    elif family == 'lattice_gappy':
        spec.update(lattice=rng.choice([0.5, 1.0]), start=100.0, vol=rng.choice([0.004, 0.008]),
                    gap_p=rng.choice([0.2, 0.4]), gap_size=0.01)
    elif family == 'trend':
        spec.update(trend=rng.choice([-0.0004, 0.0004, 0.001, -0.001]))
    elif family == 'tiny':
        spec.update(start=rng.choice([1.7e-5, 3.3e-4]))
    elif family == 'huge':
        spec.update(start=rng.choice([5.1e5, 2.5e6]))
    return spec
