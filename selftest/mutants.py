"""Catalogue of deliberate property-breaking changes (text substitutions on a scratch copy of jesse/).
Each: id, property ids expected to catch it, file, old, new, optional tier."""
M = []


def m(id, props, file, old, new, tier='quick', note=''):
    M.append({'id': id, 'props': props, 'file': file, 'old': old, 'new': new, 'tier': tier, 'note': note})


# ---- C18 ---------------------------------------------------------------------------------------
m('c18_grow_late', ['C18'], 'jesse/libs/dynamic_numpy_array/__init__.py',
  'if self.index + 1 >= len(self.array):', 'if self.index + 1 > len(self.array) + 1:')
m('c18_bulk_grow_short', ['C18'], 'jesse/libs/dynamic_numpy_array/__init__.py',
  'shape[0] = max(len(items), shape[0])', 'shape[0] = shape[0]')
m('c18_setslice_neg_start', ['C18'], 'jesse/libs/dynamic_numpy_array/__init__.py',
  """            if start is not None and start < 0:
                start = (self.index + 1) - abs(start)""", """            if start is not None and start < 0:
                start = self.index - abs(start)""")
m('c18_slice_stop_clip', ['C18'], 'jesse/libs/dynamic_numpy_array/__init__.py',
  'stop = min(stop, self.index + 1)', 'stop = min(stop, self.index)')
m('c18_neg_index_off_by_one', ['C18'], 'jesse/libs/dynamic_numpy_array/__init__.py',
  """            if i < 0:
                i = (self.index + 1) - abs(i)

            # validation
            if self.index == -1""", """            if i < 0:
                i = self.index - abs(i)

            # validation
            if self.index == -1""")
m('c18_drop_shift_wrong', ['C18'], 'jesse/libs/dynamic_numpy_array/__init__.py',
  """            self.index -= shift_num
            self.array = np_shift(self.array, -shift_num)

        self.array[self.index] = item""", """            self.index -= shift_num
            self.array = np_shift(self.array, -shift_num + 1)

        self.array[self.index] = item""")

# ---- C02 / C08 -----------------------------------------------------------------------------------
m('c02_includes_strict_low', ['C02', 'C08'], 'jesse/services/candle.py',
  'return (price >= candle[4]) and (price <= candle[3])', 'return (price > candle[4]) and (price <= candle[3])')
m('c02_jump_forgets_bound', ['C02', 'C07'], 'jesse/modes/backtest_mode.py',
  """        candle[1] = previous_candle[2]
        candle[4] = min(previous_candle[2], candle[4])""", """        candle[1] = previous_candle[2]""")
m('c02_match_stops_after_first_fill', ['C02', 'C08'], 'jesse/modes/backtest_mode.py',
  """                    order.execute()
                    executing_orders = _get_executing_orders(exchange, symbol, current_temp_candle)
                    if len(executing_orders) > 1:
                        # extend the candle shape from (6,) to (1,6)
                        executing_orders = _sort_execution_orders(executing_orders, current_temp_candle[None, :])
""", """                    order.execute()
                    executing_orders = []
""")
m('c02_no_market_flush_in_step', ['C02'], 'jesse/modes/backtest_mode.py',
  """        # now check to see if there's any MARKET orders waiting to be executed
        _execute_market_orders()

        if i != 0 and i % 1440 == 0:
            save_daily_portfolio_balance()

    _finish_progress_bar(progressbar, run_silently)

    execution_duration = 0
    if not run_silently:
        # print executed time for the backtest session
        finish_time_track = time.time()
        execution_duration = round(finish_time_track - begin_time_track, 2)

    for r in router.routes:
        r.strategy._terminate()
        _execute_market_orders()

    # now that backtest simulation is finished, add finishing balance
    save_daily_portfolio_balance()

    # set the ending time for the backtest session
    store.app.ending_time = store.app.time + 60_000

    result = _generate_outputs(
        candles,
        generate_tradingview=generate_tradingview,
        generate_csv=generate_csv,
        generate_json=generate_json,
        generate_equity_curve=generate_equity_curve,
        benchmark=benchmark,
        generate_hyperparameters=generate_hyperparameters,
        generate_logs=generate_logs,
    )
    result['execution_duration'] = execution_duration
    return result


def _simulation_minutes_length""", """        if i != 0 and i % 1440 == 0:
            save_daily_portfolio_balance()

    _finish_progress_bar(progressbar, run_silently)

    execution_duration = 0
    if not run_silently:
        # print executed time for the backtest session
        finish_time_track = time.time()
        execution_duration = round(finish_time_track - begin_time_track, 2)

    for r in router.routes:
        r.strategy._terminate()
        _execute_market_orders()

    # now that backtest simulation is finished, add finishing balance
    save_daily_portfolio_balance()

    # set the ending time for the backtest session
    store.app.ending_time = store.app.time + 60_000

    result = _generate_outputs(
        candles,
        generate_tradingview=generate_tradingview,
        generate_csv=generate_csv,
        generate_json=generate_json,
        generate_equity_curve=generate_equity_curve,
        benchmark=benchmark,
        generate_hyperparameters=generate_hyperparameters,
        generate_logs=generate_logs,
    )
    result['execution_duration'] = execution_duration
    return result


def _simulation_minutes_length""", note='market orders from fill hooks are only flushed by the next strategy step')
m('c02_fast_skips_last_minute', ['C02', 'C12'], 'jesse/modes/backtest_mode.py',
  '        for i in range(len(short_timeframes_candles)):\n            current_temp_candle = short_timeframes_candles[i].copy()',
  '        for i in range(max(1, len(short_timeframes_candles) - 1)):\n            current_temp_candle = short_timeframes_candles[i].copy()')
m('c08_sort_swap_red_green', ['C08', 'C02'], 'jesse/modes/backtest_mode.py',
  'is_red = short_candles[i, 1] > short_candles[i, 2]', 'is_red = short_candles[i, 1] < short_candles[i, 2]')
m('c08_sort_below_ascending', ['C08', 'C02'], 'jesse/modes/backtest_mode.py',
  "sorted_orders += sorted(below_open, key=lambda o: o.price, reverse=True) + sorted(above_open, key=lambda o: o.price)",
  "sorted_orders += sorted(below_open, key=lambda o: o.price) + sorted(above_open, key=lambda o: o.price)")
m('c08_split_wrong_half', ['C08'], 'jesse/services/candle.py',
  """        return np.array([
            timestamp, o, price, price, l, v
        ]), np.array([
            timestamp, price, c, h, c, v
        ]),""", """        return np.array([
            timestamp, o, price, price, l, v
        ]), np.array([
            timestamp, price, c, h, l, v
        ]),""")
m('c08_is_bullish_strict', ['C08'], 'jesse/services/candle.py',
  'return candle[2] >= candle[1]', 'return candle[2] > candle[1]')
m('c08_split_bear_close_branch', ['C08'], 'jesse/services/candle.py',
  """    elif is_bearish(candle) and price == c:
        return np.array([
            timestamp, o, c, h, c, v
        ]), np.array([
            timestamp, price, price, price, l, v
        ])""", """    elif is_bearish(candle) and price == c:
        return np.array([
            timestamp, o, c, h, c, v
        ]), np.array([
            timestamp, price, price, price, price, v
        ])""")

# ---- C07 -----------------------------------------------------------------------------------------
m('c07_high_last', ['C07'], 'jesse/services/candle.py',
  """        candles[-1][2],
        candles[:, 3].max(),""", """        candles[-1][2],
        candles[-1, 3],""")
m('c07_volume_last', ['C07'], 'jesse/services/candle.py',
  """        candles[:, 5].sum(),
    ])


def candle_dict_to_np_array""", """        candles[-1, 5],
    ])


def candle_dict_to_np_array""")
m('c07_table_45', ['C07', 'C17'], 'jesse/utils.py', 'timeframes.MINUTE_45: 45,', 'timeframes.MINUTE_45: 40,')
m('c07_forming_count', ['C07'], 'jesse/store/state_candles.py',
  'dif = current_1m_count % required_1m_to_complete_count', 'dif = (current_1m_count + 1) % required_1m_to_complete_count')
m('c07_warmup_inject_mod', ['C07'], 'jesse/services/candle.py',
  """            if (i + 1) % num == 0:
                generated_candle = generate_candle_from_one_minutes(
                    timeframe,
                    candles[(i - (num - 1)):(i + 1)],
                    True
                )

                store.candles.add_candle(""", """            if (i + 1) % num == 0:
                generated_candle = generate_candle_from_one_minutes(
                    timeframe,
                    candles[(i - (num - 2)):(i + 1)],
                    True
                )

                store.candles.add_candle(""")
m('c07_partial_needed', ['C07'], 'jesse/modes/backtest_mode.py',
  'number_of_needed_candles = int(storable_temp_candle[0] % (tf_minutes * 60_000) // 60000) + 1',
  'number_of_needed_candles = int(storable_temp_candle[0] % (tf_minutes * 60_000) // 60000) + 2')
m('c07_step_window_open', ['C07'], 'jesse/modes/backtest_mode.py',
  """                    generated_candle = generate_candle_from_one_minutes(
                        timeframe,
                        candles[j]['candles'][(i - (count - 1)):(i + 1)]
                    )""", """                    generated_candle = generate_candle_from_one_minutes(
                        timeframe,
                        candles[j]['candles'][(i - (count - 1)):(i + 1)]
                    )
                    generated_candle[1] = candles[j]['candles'][i - (count - 1) + (1 if count > 2 else 0)][1]""")
m('c07_current_candle_stale', ['C07'], 'jesse/store/state_candles.py',
  """        # forming candle
        if dif != 0:
            return generate_candle_from_one_minutes(
                timeframe, self.storage[short_key][short_count - dif:short_count],
                True
            )""", """        # forming candle
        if dif != 0:
            return generate_candle_from_one_minutes(
                timeframe, self.storage[short_key][short_count - dif:max(short_count - 1, short_count - dif + 1)],
                True
            )""")

# ---- C12 -----------------------------------------------------------------------------------------
m('c12_step_max_instead_of_gcd', ['C12', 'C01'], 'jesse/modes/backtest_mode.py',
  'return np.gcd.reduce(consider_time_frames)', 'return max(consider_time_frames)')
m('c12_routes_before_candles', ['C12'], 'jesse/modes/backtest_mode.py',
  """        _simulate_new_candles(candles, i, current_step)

        last_update_time = _update_progress_bar(progressbar, run_silently, i, candles_step,
                                                last_update_time=last_update_time)

        _execute_routes(i, current_step)
""", """        _execute_routes(i - current_step, current_step) if i else None
        _simulate_new_candles(candles, i, current_step)

        last_update_time = _update_progress_bar(progressbar, run_silently, i, candles_step,
                                                last_update_time=last_update_time)
""")
m('c12_fast_no_market_flush', ['C12', 'C02'], 'jesse/modes/backtest_mode.py',
  """        _execute_routes(i, current_step)

        # now check to see if there's any MARKET orders waiting to be executed
        _execute_market_orders()
""", """        _execute_routes(i, current_step)
""")
m('c12_fast_no_partial_update', ['C12', 'C07'], 'jesse/modes/backtest_mode.py',
  """                    _update_all_routes_a_partial_candle(
                        exchange,
                        symbol,
                        storable_temp_candle,
                    )
                    p = selectors.get_position(exchange, symbol)
                    p.current_price = storable_temp_candle[2]

                    is_executed_order = True""", """                    p = selectors.get_position(exchange, symbol)
                    p.current_price = storable_temp_candle[2]

                    is_executed_order = True""")
m('c12_fast_prev_close_not_extended', ['C12', 'C02'], 'jesse/modes/backtest_mode.py',
  """            if i > 0:
                # like the normal simulator: the minute starts at the previous close
                current_temp_candle = _get_fixed_jumped_candle(short_timeframes_candles[i - 1], current_temp_candle)""",
  """            if i > 0:
                pass""")
m('c12_fast_candidates_unsorted', ['C02'], 'jesse/modes/backtest_mode.py',
  """                if len(candidates) > 1:
                    candidates = _sort_execution_orders(candidates, current_temp_candle[None, :])

                if len(candidates) == 0:
                    is_executed_order = False""", """                if len(candidates) == 0:
                    is_executed_order = False""")
# (removing the per-minute to_execute flush alone is equivalent since the fast simulator re-reads the active orders after every
#  fill: a MARKET order queued by a fill callback rests at the fill price and is matched as the next candidate of that minute)

# ---- C01 -----------------------------------------------------------------------------------------
m('c01_step_clock_and_data_one_minute_ahead', ['C01'], 'jesse/modes/backtest_mode.py',
  """        store.app.time = first_candles_set[i][0] + 60_000

        # add candles
        for j in candles:
            short_candle = candles[j]['candles'][i]""", """        _ii = min(i + 1, length - 1) if i >= 90 else i
        store.app.time = first_candles_set[_ii][0] + 60_000

        # add candles
        for j in candles:
            short_candle = candles[j]['candles'][_ii]""",
  note='from minute 90 on the normal simulator processes the NEXT candle and moves its clock with it: a cut derived from the clock moves with the defect; the position-based cut does not')
m('c01_tf_close_peeks_next_open', ['C01', 'C07'], 'jesse/modes/backtest_mode.py',
  """                        candles[j]['candles'][(i - (count - 1)):(i + 1)]
                    )
""", """                        candles[j]['candles'][(i - (count - 1)):(i + 1)]
                    )
                    if i + 1 < len(candles[j]['candles']):
                        generated_candle[2] = candles[j]['candles'][i + 1][1]
""")
m('c01_match_range_peeks_next_high', ['C01', 'C02'], 'jesse/modes/backtest_mode.py',
  """            _simulate_price_change_effect(short_candle, exchange, symbol)
""", """            if i + 1 < len(candles[j]['candles']) and candles[j]['candles'][i + 1][3] > short_candle[3] * 1.002:
                short_candle = short_candle.copy()
                short_candle[3] = candles[j]['candles'][i + 1][3]
            _simulate_price_change_effect(short_candle, exchange, symbol)
""")
m('c01_current_price_next_open', ['C01'], 'jesse/modes/backtest_mode.py',
  """            p = selectors.get_position(exchange, symbol)
            if p:
                p.current_price = real_candle[2]
            break

    _check_for_liquidations(real_candle, exchange, symbol)""", """            p = selectors.get_position(exchange, symbol)
            if p:
                p.current_price = real_candle[2]
            break

    _check_for_liquidations(real_candle, exchange, symbol)
    from jesse.modes import backtest_mode as _bm
    nxt = getattr(_bm, '_peek_next', {}).get(symbol)
    if nxt is not None and p:
        p.current_price = nxt""", note='needs the companion change below to have any effect; alone it is inert')
m('c01_fast_chunk_one_more', ['C01', 'C12'], 'jesse/modes/backtest_mode.py',
  """        short_candles = candles[j]["candles"][i: i + candles_step]
        if i != 0:""", """        short_candles = candles[j]["candles"][i: i + candles_step + (1 if i % 7 == 3 else 0)]
        if i != 0:""")
m('c01_skip_sim_liquidation_peek', ['C01'], 'jesse/modes/backtest_mode.py',
  """    store.app.time = real_candle[0] + (60_000 * len(short_timeframes_candles))
    _check_for_liquidations(real_candle, exchange, symbol)""", """    store.app.time = real_candle[0] + (60_000 * len(short_timeframes_candles))
    _check_for_liquidations(real_candle, exchange, symbol)
    store.vars['_last_real_high'] = real_candle[3]""", note='inert marker (control): must NOT be flagged')
m('c01_strategy_price_from_future', ['C01'], 'jesse/strategies/Strategy.py',
  """        # Cache the current price at the start of execution
        self._cached_price = self.close
""", """        # Cache the current price at the start of execution
        self._cached_price = self.close
        try:
            from jesse.modes import backtest_mode as _bm
            _fc = _bm.__dict__.get('_verif_future')
        except Exception:
            _fc = None
""", note='inert (control)')
m('c01_get_candles_extra_row', ['C01', 'C07'], 'jesse/store/state_candles.py',
  """        if timeframe == '1m':
            arr: DynamicNumpyArray = self.get_storage(exchange, symbol, '1m')
            if len(arr) == 0:
                return np.zeros((0, 6))
            else:
                return arr[:]

        # other timeframes
        dif, long_key, short_key = self.forming_estimation(exchange, symbol, timeframe)
        long_count = len(self.get_storage(exchange, symbol, timeframe))""", """        if timeframe == '1m':
            arr: DynamicNumpyArray = self.get_storage(exchange, symbol, '1m')
            if len(arr) == 0:
                return np.zeros((0, 6))
            else:
                return arr.array[:len(arr) + 1] if arr.array[len(arr)][0] != 0 else arr[:]

        # other timeframes
        dif, long_key, short_key = self.forming_estimation(exchange, symbol, timeframe)
        long_count = len(self.get_storage(exchange, symbol, timeframe))""",
  note='exposes a row beyond the used length if the buffer holds one (fast mode override path leaves none; mostly inert)')
m('c01_deepcopy_removed_normalise_leak', ['C01'], 'jesse/modes/backtest_mode.py',
  """            if i != 0:
                previous_short_candle = candles[j]['candles'][i - 1]
                short_candle = _get_fixed_jumped_candle(previous_short_candle, short_candle)""",
  """            if i != 0:
                previous_short_candle = candles[j]['candles'][i - 1]
                short_candle = _get_fixed_jumped_candle(previous_short_candle, short_candle)
            if i + 1 < len(candles[j]['candles']) and candles[j]['candles'][i + 1][2] > short_candle[3]:
                short_candle[5] = short_candle[5] + 1e-9""", note='volume of minute i depends on the next close')

# ---- C03 -----------------------------------------------------------------------------------------
m('c03_avg_price_weights_swapped', ['C03'], 'jesse/helpers.py',
  """    return (abs(order_qty) * order_price + abs(current_qty) *
            current_entry_price) / (abs(order_qty) + abs(current_qty))""",
  """    return (abs(current_qty) * order_price + abs(order_qty) *
            current_entry_price) / (abs(order_qty) + abs(current_qty))""")
m('c03_cancel_wrong_table', ['C03'], 'jesse/models/FuturesExchange.py',
  """            if order.side == sides.BUY:
                index = find_order_index(self.buy_orders[base_asset].array, order_array)
                if index != -1:
                    self.buy_orders[base_asset].delete(index, axis=0)
            else:
                index = find_order_index(self.sell_orders[base_asset].array, order_array)
                if index != -1:
                    self.sell_orders[base_asset].delete(index, axis=0)""",
  """            if order.side == sides.SELL:
                index = find_order_index(self.buy_orders[base_asset].array, order_array)
                if index != -1:
                    self.buy_orders[base_asset].delete(index, axis=0)
            else:
                index = find_order_index(self.sell_orders[base_asset].array, order_array)
                if index != -1:
                    self.sell_orders[base_asset].delete(index, axis=0)""")
m('c03_fee_only_on_entries', ['C03', 'C06'], 'jesse/models/Position.py',
  """            if self.exchange and self.exchange.type == 'futures':
                self.exchange.charge_fee(qty * price)""",
  """            if self.exchange and self.exchange.type == 'futures' and not order.reduce_only:
                self.exchange.charge_fee(qty * price)""")
m('c03_reject_ge', ['C03'], 'jesse/models/FuturesExchange.py',
  'if effective_order_size > self.available_margin:', 'if effective_order_size >= self.available_margin:')
m('c03_upnl_added', ['C03'], 'jesse/models/FuturesExchange.py',
  'total_spent -= position.pnl', 'total_spent += position.pnl')
m('c03_max_to_sum', ['C03'], 'jesse/models/FuturesExchange.py',
  """            total_spent += max(
                abs(sum_buy_orders) / self.futures_leverage, abs(sum_sell_orders) / self.futures_leverage
            )""", """            total_spent += (
                abs(sum_buy_orders) / self.futures_leverage + abs(sum_sell_orders) / self.futures_leverage
            )""")
m('c03_reduce_pnl_current_price', ['C03', 'C06'], 'jesse/models/Position.py',
  "        estimated_profit = jh.estimate_PNL(qty, self.entry_price, price, self.type)\n",
  "        estimated_profit = jh.estimate_PNL(qty, self.entry_price, self.current_price if self.current_price else price, self.type)\n",
  note='equivalent in the simulators (current price == fill price at the fill); direct-drive sets it too -> expected equivalent')
m('c03_flip_keeps_entry', ['C03'], 'jesse/models/Position.py',
  """                        diff_qty = sum_floats(self.qty, qty)
                        self._mutating_close(price)
                        self._mutating_open(diff_qty, price)""",
  """                        diff_qty = sum_floats(self.qty, qty)
                        old_entry = self.entry_price
                        self._mutating_close(price)
                        self._mutating_open(diff_qty, (price + old_entry) / 2 if abs(diff_qty) < 0.5 else price)""")
m('c03_mark_price_not_updated_when_closing_at_high', ['C03'], 'jesse/modes/backtest_mode.py',
  """            p = selectors.get_position(exchange, symbol)
            if p:
                p.current_price = real_candle[2]
            break

    _check_for_liquidations(real_candle, exchange, symbol)""", """            p = selectors.get_position(exchange, symbol)
            if p and (not (real_candle[2] > real_candle[1] and real_candle[3] == real_candle[2]) or p.current_price is None):
                p.current_price = real_candle[2]
            break

    _check_for_liquidations(real_candle, exchange, symbol)""",
  note='the mark price is not refreshed by a rising minute that closes at its high: unrealised PnL and margin are computed from a stale price (a flat minute would be equivalent: its close is the previous close)')
m('c03_reduce_only_increase_allowed_when_small', ['C03'], 'jesse/models/Position.py',
  """                if order.reduce_only:
                    logger.info('Did not increase position because order is a reduce_only order')""",
  """                if order.reduce_only and abs(qty) >= abs(self.qty):
                    logger.info('Did not increase position because order is a reduce_only order')""")
m('c03_market_order_not_removed_from_table', ['C03'], 'jesse/models/FuturesExchange.py',
  """        if not order.reduce_only:
            order_array = np.array([order.qty, order.price])
            if order.side == sides.BUY:
                item_index = np.where(""", """        if not order.reduce_only and order.type != order_types.MARKET:
            order_array = np.array([order.qty, order.price])
            if order.side == sides.BUY:
                item_index = np.where(""")

# ---- C04 -----------------------------------------------------------------------------------------
m('c04_double_release_again', ['C04'], 'jesse/models/SpotExchange.py',
  "        # sell order: the committed stop/limit sums have already been released above\n",
  """        else:
            if order.type == order_types.STOP:
                self.stop_orders_sum[order.symbol] = subtract_floats(self.stop_orders_sum[order.symbol], abs(order.qty))
""")
m('c04_fee_wrong_leg', ['C04'], 'jesse/models/SpotExchange.py',
  "self.assets[base_asset] = sum_floats(self.assets[base_asset], abs(order.qty) * (1 - self.fee_rate))",
  "self.assets[base_asset] = sum_floats(self.assets[base_asset], abs(order.qty))")
m('c04_market_sell_ignores_limits', ['C04'], 'jesse/models/SpotExchange.py',
  "order_qty = sum_floats(abs(order.qty), self.limit_orders_sum.get(order.symbol, 0))", "order_qty = abs(order.qty)")
m('c04_sell_reject_ge', ['C04'], 'jesse/models/SpotExchange.py', 'if order_qty > base_balance:', 'if order_qty >= base_balance:')
m('c04_buy_reject_le', ['C04'], 'jesse/models/SpotExchange.py',
  'if self.assets[self.settlement_currency] < 0:', 'if self.assets[self.settlement_currency] <= 0:')
m('c04_cancel_buy_releases_qty_only', ['C04'], 'jesse/models/SpotExchange.py',
  "self.assets[self.settlement_currency] = sum_floats(self.assets[self.settlement_currency], abs(order.qty) * order.price)",
  "self.assets[self.settlement_currency] = sum_floats(self.assets[self.settlement_currency], abs(order.qty) * order.price * (1 - self.fee_rate))")
m('c04_exec_limit_sum_not_reduced', ['C04'], 'jesse/models/SpotExchange.py',
  """            elif order.type == order_types.LIMIT:
                self.limit_orders_sum[order.symbol] = subtract_floats(self.limit_orders_sum[order.symbol], abs(order.qty))

        base_asset = jh.base_asset(order.symbol)

        # buy order
        if order.side == sides.BUY:
            # asset's balance is increased""", """            elif order.type == order_types.LIMIT:
                pass

        base_asset = jh.base_asset(order.symbol)

        # buy order
        if order.side == sides.BUY:
            # asset's balance is increased""")
m('c04_position_qty_no_fee', ['C04'], 'jesse/models/Position.py',
  "                self.qty = sum_floats(self.qty, qty * (1 - self.exchange.fee_rate))",
  "                self.qty = sum_floats(self.qty, qty)")

# ---- C05 -----------------------------------------------------------------------------------------
m('c05_execute_no_early_return', ['C05'], 'jesse/models/Order.py',
  """    def execute(self, silent=False) -> None:
        if self.is_canceled or self.is_executed:
            return
""", """    def execute(self, silent=False) -> None:
        if self.is_canceled:
            return
""")
m('c05_cancel_no_early_return', ['C05'], 'jesse/models/Order.py',
  """    def cancel(self, silent=False, source='') -> None:
        if self.is_canceled or self.is_executed:
            return
""", """    def cancel(self, silent=False, source='') -> None:
        if self.is_executed:
            return
""")
m('c05_update_active_keeps_executed', ['C05'], 'jesse/store/state_orders.py',
  "if not order.is_canceled and not order.is_executed", "if not order.is_canceled")
m('c05_update_active_drops_active_stops', ['C05'], 'jesse/store/state_orders.py',
  "if not order.is_canceled and not order.is_executed", "if not order.is_canceled and not order.is_executed and not (order.type == 'STOP' and order.reduce_only and len(self.get_active_orders(exchange, symbol)) > 3)")
m('c05_market_order_recorded_twice', ['C05', 'C06'], 'jesse/store/state_completed_trades.py',
  """            executed_order.trade_id = t.id
            t.orders.append(executed_order)
""", """            executed_order.trade_id = t.id
            t.orders.append(executed_order)
            if executed_order.type == 'MARKET' and executed_order.reduce_only and len(t.orders) > 2:
                t.orders.append(executed_order)
""")
m('c05_execute_canceled_when_queued', ['C05'], 'jesse/models/Order.py',
  """    def execute(self, silent=False) -> None:
        if self.is_canceled or self.is_executed:
            return
""", """    def execute(self, silent=False) -> None:
        if (self.is_canceled and self.type != 'MARKET') or self.is_executed:
            return
""", note='a market order cancelled while still queued is executed by the flush')
m('c05_reset_trade_orders_early', ['C05'], 'jesse/strategies/Strategy.py',
  """        # should_long and should_short
        if self.position.is_close and self.entry_orders == []:
            self._reset()
""", """        # should_long and should_short
        if self.position.is_close and (self.entry_orders == [] or (self.index % 17 == 5 and not self.should_cancel_entry())):
            self._reset()
""", note='drops the order lists while entry orders are still active (every 17th step)')

# ---- C06 -----------------------------------------------------------------------------------------
m('c06_effect_increase_ge', ['C06'], 'jesse/strategies/Strategy.py',
  "        elif abs(after_qty) > abs(before_qty):\n            effect = 'increased_position'",
  "        elif abs(after_qty) >= abs(before_qty) * 0.6:\n            effect = 'increased_position'",
  note='small reductions are reported as increases')
m('c06_close_trade_no_reset', ['C06', 'C05'], 'jesse/store/state_completed_trades.py',
  "        # at the end, reset the trade variable\n        self._reset_current_trade(position.exchange_name, position.symbol)",
  "        # at the end, reset the trade variable\n        if len(self.trades) % 5 != 3:\n            self._reset_current_trade(position.exchange_name, position.symbol)")
m('c06_short_qty_wrong_side', ['C06'], 'jesse/models/ClosedTrade.py',
  """        elif self.is_short:
            return self.sell_orders[:][:, 0].sum()
        else:
            return 0.0""", """        elif self.is_short:
            return self.buy_orders[:][:, 0].sum()
        else:
            return 0.0""")
m('c06_terminate_no_close', ['C06'], 'jesse/strategies/Strategy.py',
  "            self.broker.reduce_position_at(self.position.qty, self.position.current_price, self.price)\n            self.terminate()",
  "            self.terminate()")
m('c06_exit_price_unweighted', ['C06'], 'jesse/models/ClosedTrade.py',
  """        else:
            return np.nan

        return (orders[:, 0] * orders[:, 1]).sum() / orders[:, 0].sum()

    @property
    def is_open""", """        else:
            return np.nan

        return orders[:, 1].mean()

    @property
    def is_open""")
m('c06_opened_at_from_last_increase', ['C06'], 'jesse/models/Position.py',
  """        if self._can_mutate_qty:
            if self.type == trade_types.LONG:
                self._update_qty(qty, operation='add')
            elif self.type == trade_types.SHORT:
                self._update_qty(qty, operation='subtract')
""", """        if self._can_mutate_qty:
            if self.type == trade_types.LONG:
                self._update_qty(qty, operation='add')
            elif self.type == trade_types.SHORT:
                self._update_qty(qty, operation='subtract')
        self.opened_at = jh.now_to_timestamp()
        from jesse.store import store
        store.completed_trades._get_current_trade(self.exchange_name, self.symbol).opened_at = self.opened_at
""")
m('c06_reduced_hook_twice_on_market', ['C06'], 'jesse/strategies/Strategy.py',
  "        self.on_reduced_position(order)\n\n        self._detect_and_handle_entry_and_exit_modifications()",
  "        self.on_reduced_position(order)\n        if order.type == 'MARKET' and self.reduced_count > 1:\n            self.on_reduced_position(order)\n\n        self._detect_and_handle_entry_and_exit_modifications()")

# ---- C09 -----------------------------------------------------------------------------------------
m('c09_maintenance_004_to_04', ['C09'], 'jesse/models/Position.py',
  "return self.entry_price * (1 - self._initial_margin_rate + 0.004)", "return self.entry_price * (1 - self._initial_margin_rate + 0.04)")
m('c09_short_sign_flipped', ['C09'], 'jesse/models/Position.py',
  "return self.entry_price * (1 + self._initial_margin_rate - 0.004)", "return self.entry_price * (1 + self._initial_margin_rate + 0.004)")
m('c09_check_uses_close_only', ['C09'], 'jesse/modes/backtest_mode.py',
  "    if candle_includes_price(candle, p.liquidation_price):\n        closing_order_side",
  "    if (p.type == 'long' and candle[2] <= p.liquidation_price) or (p.type == 'short' and candle[2] >= p.liquidation_price):\n        closing_order_side")
m('c09_liq_order_at_liq_price', ['C09'], 'jesse/modes/backtest_mode.py',
  "            'price': p.bankruptcy_price\n        })", "            'price': p.liquidation_price\n        })")
m('c09_not_reduce_only', ['C09'], 'jesse/modes/backtest_mode.py',
  "            'type': order_types.MARKET,\n            'reduce_only': True,\n            'qty': jh.prepare_qty(p.qty, closing_order_side),",
  "            'type': order_types.MARKET,\n            'reduce_only': False,\n            'qty': jh.prepare_qty(p.qty, closing_order_side),")
m('c09_counter_twice', ['C09'], 'jesse/modes/backtest_mode.py',
  "        store.app.total_liquidations += 1\n", "        store.app.total_liquidations += 2 if p.type == 'short' else 1\n")
m('c09_also_cross', ['C09'], 'jesse/modes/backtest_mode.py',
  "    if p.mode != 'isolated':\n        return",
  """    if p.mode == 'spot':
        return
    if p.mode == 'cross':
        if not p.is_open:
            return
        lp = p.entry_price * (1 - 1 / p.leverage + 0.004) if p.type == 'long' else p.entry_price * (1 + 1 / p.leverage - 0.004)
        if not candle_includes_price(candle, lp):
            return
        p.exchange.futures_leverage_mode = 'isolated'""")
m('c09_bankruptcy_short_like_long', ['C09'], 'jesse/models/Position.py',
  "            return self.entry_price * (1 + self._initial_margin_rate)\n        else:\n            return np.nan",
  "            return self.entry_price * (1 + self._initial_margin_rate) if self.leverage < 20 else self.entry_price * (1 + self._initial_margin_rate / 2)\n        else:\n            return np.nan",
  note='short positions with leverage >= 20 are closed at half the margin distance')
m('c09_liq_price_from_opening_entry', ['C09'], 'jesse/models/Position.py',
  "                return self.entry_price * (1 - self._initial_margin_rate + 0.004)",
  "                return (self.entry_price if abs(self.qty) <= abs(self.previous_qty or 0) or not self.previous_qty else self.entry_price * 1.002) * (1 - self._initial_margin_rate + 0.004)",
  note='after an increase the liquidation price is computed from a shifted entry')
m('c09_liq_qty_previous', ['C09'], 'jesse/modes/backtest_mode.py',
  "            'qty': jh.prepare_qty(p.qty, closing_order_side),", "            'qty': jh.prepare_qty(p.qty if p.previous_qty in (0, None) or abs(p.previous_qty) < abs(p.qty) else p.previous_qty, closing_order_side),",
  note='after a partial reduction the forced close is sized with the size before the reduction (reduce-only clips it: may be equivalent in position terms but not in the order record)')
m('c09_liquidation_skipped_when_resting_orders', ['C09'], 'jesse/modes/backtest_mode.py',
  "    if candle_includes_price(candle, p.liquidation_price):\n        closing_order_side",
  "    if candle_includes_price(candle, p.liquidation_price) and store.orders.count_active_orders(exchange, symbol) < 3:\n        closing_order_side")
m('c09_liquidation_keeps_resting_orders', ['C09'], 'jesse/strategies/Strategy.py',
  "        self._broadcast('route-close-position')\n        self._execute_cancel()\n        self.on_close_position(order)",
  "        self._broadcast('route-close-position')\n        if not (order.type == 'MARKET' and order.reduce_only and store.app.total_liquidations > 0 and order.submitted_via is None):\n            self._execute_cancel()\n        self.on_close_position(order)",
  note='after a liquidation the resting exit orders of the position stay active')
m('c09_includes_strict_high', ['C09', 'C02'], 'jesse/services/candle.py',
  'return (price >= candle[4]) and (price <= candle[3])', 'return (price >= candle[4]) and (price < candle[3])')
m('c09_fast_liq_uses_last_minute_only', ['C09'], 'jesse/modes/backtest_mode.py',
  "    store.app.time = real_candle[0] + (60_000 * len(short_timeframes_candles))\n    _check_for_liquidations(real_candle, exchange, symbol)",
  "    store.app.time = real_candle[0] + (60_000 * len(short_timeframes_candles))\n    _check_for_liquidations(short_timeframes_candles[-1], exchange, symbol)")

# ---- C10 -----------------------------------------------------------------------------------------
m('c10_threshold_0015', ['C10'], 'jesse/helpers.py',
  'def is_price_near(order_price, price_to_compare, percentage_threshold=0.00015):',
  'def is_price_near(order_price, price_to_compare, percentage_threshold=0.0015):')
m('c10_short_entry_swapped', ['C10'], 'jesse/strategies/Strategy.py',
  """            # STOP order
            elif o[1] < price_to_compare:
                self.broker.start_profit_at(sides.SELL, o[0], o[1])
            # LIMIT order
            elif o[1] > price_to_compare:
                self.broker.sell_at(o[0], o[1])""", """            # STOP order
            elif o[1] > price_to_compare:
                self.broker.api.stop_order(self.exchange, self.symbol, abs(o[0]), o[1], sides.SELL, reduce_only=False)
            # LIMIT order
            elif o[1] < price_to_compare:
                self.broker.sell_at(o[0], o[1])""")
m('c10_exit_not_reduce_only', ['C10'], 'jesse/services/broker.py',
  """            return self.api.stop_order(
                self.exchange,
                self.symbol,
                abs(qty),
                price,
                side,
                reduce_only=True
            )""", """            return self.api.stop_order(
                self.exchange,
                self.symbol,
                abs(qty),
                price,
                side,
                reduce_only=False
            )""")
m('c10_sl_cancel_filters_tp', ['C10'], 'jesse/strategies/Strategy.py',
  """                    for o in self.active_exit_orders:
                        if o.is_stop_loss and (o.is_active or o.is_queued):
                            self.broker.cancel_order(o.id)""", """                    for o in self.active_exit_orders:
                        if o.is_take_profit and (o.is_active or o.is_queued):
                            self.broker.cancel_order(o.id)""")
m('c10_cancel_entry_ignored', ['C10'], 'jesse/strategies/Strategy.py',
  "        if len(self.entry_orders) and self.is_close and self.should_cancel_entry():",
  "        if len(self.entry_orders) and self.is_close and (self.should_cancel_entry() or self.index % 3 == 0):")
m('c10_cancel_entry_not_done', ['C10'], 'jesse/strategies/Strategy.py',
  "        if len(self.entry_orders) and self.is_close and self.should_cancel_entry():",
  "        if len(self.entry_orders) and self.is_close and self.should_cancel_entry() and self.index % 3 != 0:")
m('c10_exit_limit_stop_swapped_short', ['C10'], 'jesse/services/broker.py',
  "side == 'buy' and self.position.type == 'short' and price < current_price):\n            return self.api.limit_order(",
  "side == 'buy' and self.position.type == 'short' and price < current_price and self.position.qty > -1e9 and False):\n            return self.api.limit_order(")
m('c10_tp_modification_keeps_old', ['C10'], 'jesse/strategies/Strategy.py',
  """                    for o in self.active_exit_orders:
                        if o.is_take_profit and (o.is_active or o.is_queued):
                            self.broker.cancel_order(o.id)

                    # SUBMIT new orders
                    for o in self._take_profit:""", """                    for o in self.active_exit_orders[:2]:
                        if o.is_take_profit and (o.is_active or o.is_queued):
                            self.broker.cancel_order(o.id)

                    # SUBMIT new orders
                    for o in self._take_profit:""")
m('c10_sl_modification_price_only', ['C10'], 'jesse/strategies/Strategy.py',
  "                if not np.array_equal(self.stop_loss, self._stop_loss):",
  "                if not (np.shape(self.stop_loss) == np.shape(self._stop_loss) and np.array_equal(np.asarray(self.stop_loss)[:, 1], np.asarray(self._stop_loss)[:, 1])):",
  note='a stop-loss whose quantity changed at the same price is not re-submitted')
m('c10_close_does_not_cancel', ['C10'], 'jesse/strategies/Strategy.py',
  "        self._broadcast('route-close-position')\n        self._execute_cancel()\n        self.on_close_position(order)",
  "        self._broadcast('route-close-position')\n        if self.trades_count % 3 != 2:\n            self._execute_cancel()\n        self.on_close_position(order)",
  note='every third close leaves the remaining exit orders active')
m('c10_increase_no_reconcile', ['C10'], 'jesse/strategies/Strategy.py',
  "        self.on_increased_position(order)\n\n        self._detect_and_handle_entry_and_exit_modifications()",
  "        self.on_increased_position(order)")
m('c10_market_entry_qty_rounded', ['C10'], 'jesse/strategies/Strategy.py',
  """            if jh.is_price_near(o[1], price_to_compare):
                self.broker.buy_at_market(o[0])""", """            if jh.is_price_near(o[1], price_to_compare):
                self.broker.buy_at_market(round(o[0], 2) or o[0])""")

# ---- C16 -----------------------------------------------------------------------------------------
m('c16_win_rate_over_total', ['C16'], 'jesse/services/metrics.py',
  "win_rate = len(winning_trades) / (len(losing_trades) + len(winning_trades))", "win_rate = len(winning_trades) / total_completed")
m('c16_sharpe_252', ['C16'], 'jesse/services/metrics.py',
  "sharpe = np.nan if len(daily_return) < 2 else sharpe_ratio(daily_return, periods=365).iloc[0]",
  "sharpe = np.nan if len(daily_return) < 2 else sharpe_ratio(daily_return, periods=252).iloc[0]")
m('c16_shorts_pct_wrong', ['C16'], 'jesse/services/metrics.py',
  "shorts_percentage = 100 - longs_percentage", "shorts_percentage = shorts_count / max(total_losing_trades + total_winning_trades, 1) * 100")
m('c16_daily_off_by_one', ['C16'], 'jesse/modes/backtest_mode.py',
  """        _execute_market_orders()

        if i != 0 and i % 1440 == 0:
            save_daily_portfolio_balance()

    _finish_progress_bar(progressbar, run_silently)

    execution_duration = 0
    if not run_silently:
        # print executed time for the backtest session
        finish_time_track = time.time()
        execution_duration = round(finish_time_track - begin_time_track, 2)

    for r in router.routes:
        r.strategy._terminate()
        _execute_market_orders()

    # now that backtest simulation is finished, add finishing balance
    save_daily_portfolio_balance()

    # set the ending time for the backtest session
    store.app.ending_time = store.app.time + 60_000

    result = _generate_outputs(
        candles,
        generate_tradingview=generate_tradingview,
        generate_csv=generate_csv,
        generate_json=generate_json,
        generate_equity_curve=generate_equity_curve,
        benchmark=benchmark,
        generate_hyperparameters=generate_hyperparameters,
        generate_logs=generate_logs,
    )
    result['execution_duration'] = execution_duration
    return result


def _simulation_minutes_length""", """        _execute_market_orders()

        if i != 0 and i % 2880 == 0:
            save_daily_portfolio_balance()

    _finish_progress_bar(progressbar, run_silently)

    execution_duration = 0
    if not run_silently:
        # print executed time for the backtest session
        finish_time_track = time.time()
        execution_duration = round(finish_time_track - begin_time_track, 2)

    for r in router.routes:
        r.strategy._terminate()
        _execute_market_orders()

    # now that backtest simulation is finished, add finishing balance
    save_daily_portfolio_balance()

    # set the ending time for the backtest session
    store.app.ending_time = store.app.time + 60_000

    result = _generate_outputs(
        candles,
        generate_tradingview=generate_tradingview,
        generate_csv=generate_csv,
        generate_json=generate_json,
        generate_equity_curve=generate_equity_curve,
        benchmark=benchmark,
        generate_hyperparameters=generate_hyperparameters,
        generate_logs=generate_logs,
    )
    result['execution_duration'] = execution_duration
    return result


def _simulation_minutes_length""")
m('c16_futures_equity_without_upnl', ['C16'], 'jesse/modes/utils.py',
  "            if pos.is_open:\n                total_balances += pos.pnl", "            if pos.is_open and pos.pnl < 0:\n                total_balances += pos.pnl")
m('c16_spot_equity_without_reserved', ['C16'], 'jesse/modes/utils.py',
  "                if o.is_active and o.side == 'buy':\n                    total_balances += o.value", "                if o.is_active and o.side == 'buy':\n                    total_balances += 0")
m('c16_maxdd_includes_start', ['C16'], 'jesse/services/metrics.py',
  "    prices = (returns + 1).cumprod()\n    result = (prices / prices.expanding(min_periods=0).max()).min() - 1",
  "    prices = (returns + 1).cumprod()\n    result = (prices / prices.expanding(min_periods=0).max()).iloc[:-1].min() - 1",
  note='ignores the last day in the drawdown')
m('c16_streak_be_continues', ['C16'], 'jesse/services/metrics.py',
  "    current_streak = np.where(arr >= 0, pos - np.maximum.accumulate(np.where(arr <= 0, pos, 0)),",
  "    current_streak = np.where(arr >= 0, pos - np.maximum.accumulate(np.where(arr < 0, pos, 0)),")
m('c16_fee_one_leg', ['C16', 'C06'], 'jesse/models/ClosedTrade.py',
  "        return trading_fee * self.qty * (self.entry_price + self.exit_price)", "        return trading_fee * self.qty * (self.entry_price + self.entry_price)")
m('c16_gross_loss_abs', ['C16'], 'jesse/services/metrics.py',
  "    gross_loss = losing_trades['PNL'].sum()", "    gross_loss = abs(losing_trades['PNL'].sum())")
m('c16_sortino_over_negative_count', ['C16'], 'jesse/services/metrics.py',
  "    downside = np.sqrt((returns[returns < 0] ** 2).sum() / len(returns))",
  "    downside = np.sqrt((returns[returns < 0] ** 2).sum() / max(len(returns[returns < 0]), 1))")
m('c16_sharpe_population_std', ['C16'], 'jesse/services/metrics.py',
  "    divisor = returns.std(ddof=1)", "    divisor = returns.std(ddof=0)")
m('c16_cagr_days_plus_one', ['C16'], 'jesse/services/metrics.py',
  "    # Calculate years exactly as quantstats does\n    days = (returns.index[-1] - returns.index[0]).days",
  "    # Calculate years exactly as quantstats does\n    days = (returns.index[-1] - returns.index[0]).days + 1")
m('c16_calmar_uses_last_drawdown', ['C16'], 'jesse/services/metrics.py',
  "    max_dd = abs(drawdown.min())", "    max_dd = abs(drawdown.iloc[-1]) if len(drawdown) > 40 else abs(drawdown.min())")
m('c16_expectancy_uses_total_rate', ['C16'], 'jesse/services/metrics.py',
  "        0 if np.isnan(average_loss) else average_loss) * (1 - win_rate)",
  "        0 if np.isnan(average_loss) else average_loss) * (total_losing_trades / total_completed)",
  note='differs only when break-even trades exist')
m('c16_largest_loss_is_smallest', ['C16'], 'jesse/services/metrics.py',
  "    largest_losing_trade = 0 if total_losing_trades == 0 else losing_trades['PNL'].min()",
  "    largest_losing_trade = 0 if total_losing_trades == 0 else losing_trades['PNL'].max()")
m('c16_net_profit_pct_of_current', ['C16'], 'jesse/services/metrics.py',
  "    net_profit_percentage = (net_profit / starting_balance) * 100", "    net_profit_percentage = (net_profit / current_balance) * 100")
m('c16_avg_win_over_all', ['C16'], 'jesse/services/metrics.py',
  "    average_win = winning_trades['PNL'].mean()", "    average_win = winning_trades['PNL'].sum() / max(total_completed - total_losing_trades, 1)",
  note='differs only when break-even trades exist')
m('c16_fast_daily_before_routes', ['C16'], 'jesse/modes/backtest_mode.py',
  """        _execute_routes(i, current_step)

        # now check to see if there's any MARKET orders waiting to be executed
        _execute_market_orders()

        if i != 0 and i % 1440 == 0:
            save_daily_portfolio_balance()""", """        if i != 0 and i % 1440 == 0:
            save_daily_portfolio_balance()

        _execute_routes(i, current_step)

        # now check to see if there's any MARKET orders waiting to be executed
        _execute_market_orders()""", note='sample before the strategy step of that chunk (market orders not yet filled)')

# ---- C20 -----------------------------------------------------------------------------------------
m('c20_gap_filled_with_prev_open', ['C20'], 'jesse/modes/import_candles_mode/__init__.py',
  "                last_close = candles[-1]['close']", "                last_close = candles[-1]['open']")
m('c20_loop_without_plus_one', ['C20'], 'jesse/modes/import_candles_mode/__init__.py',
  "    loop_length = ((end_timestamp - start_timestamp) / 60000) + 1", "    loop_length = ((end_timestamp - start_timestamp) / 60000)")
m('c20_append_ge', ['C20'], 'jesse/store/state_candles.py',
  "        elif candle[0] > arr[-1][0]:\n            # in paper mode", "        elif candle[0] >= arr[-1][0]:\n            # in paper mode")
m('c20_validation_rows_1_2', ['C20'], 'jesse/research/backtest.py',
  "        if candle_set[1][0] - candle_set[0][0] != 60_000:", "        if candle_set[2][0] - candle_set[1][0] != 60_000:")
m('c20_leading_gap_uses_close', ['C20'], 'jesse/modes/import_candles_mode/__init__.py',
  "                    'open': first_candle['open'],\n                    'high': first_candle['open'],", "                    'open': first_candle['close'],\n                    'high': first_candle['open'],")
m('c20_bulk_new_gt', ['C20'], 'jesse/store/state_candles.py',
  "        elif candles[0, 0] > arr[-1][0]:\n            arr.append_multiple(candles)", "        elif candles[0, 0] >= arr[-1][0]:\n            arr.append_multiple(candles)")
m('c20_volume_copied_in_gap', ['C20'], 'jesse/modes/import_candles_mode/__init__.py',
  "                    'close': last_close,\n                    'volume': 0", "                    'close': last_close,\n                    'volume': candles[-1]['volume'] if len(candles) > 7 else 0")

# ---- C17 -----------------------------------------------------------------------------------------
m('c17_floor_to_round', ['C17'], 'jesse/helpers.py',
  "    temp = 10 ** precision\n    return math.floor(num * temp) / temp", "    temp = 10 ** precision\n    return round(num * temp) / temp")
m('c17_fee_factor_1x', ['C17'], 'jesse/utils.py',
  "    if fee_rate != 0:\n        position_size *= 1 - fee_rate * 3\n", "    if fee_rate != 0:\n        position_size *= 1 - fee_rate * 0.5\n")
m('c17_decimal_of_float', ['C17', 'C04'], 'jesse/utils.py',
  "    return float(Decimal(str(float1)) + Decimal(str(float2)))", "    return float(Decimal(float1) + Decimal(float2))",
  note='binary instead of decimal addition: result equals float1 + float2 rounded once - differs only rarely')
m('c17_sum_plain_float', ['C17'], 'jesse/utils.py',
  "    return float(Decimal(str(float1)) - Decimal(str(float2)))", "    return float1 - float2")
m('c17_round_decimals_np_round', ['C17'], 'jesse/helpers.py',
  "        factor = 10 ** decimals\n        return np.floor(number * factor) / factor", "        factor = 10 ** decimals\n        return np.round(number * factor) / factor")
m('c17_limit_stop_loss_max', ['C17'], 'jesse/utils.py', "    risk = min(risk, max_allowed_risk)", "    risk = max(risk, max_allowed_risk) if trade_type == 'short' else min(risk, max_allowed_risk)")
m('c17_risk_to_size_no_cap', ['C17'], 'jesse/utils.py', "    return min(temp_size, capital_size)", "    return temp_size")
m('c17_max_timeframe_45_before_1h', ['C17'], 'jesse/helpers.py',
  "    if timeframes.HOUR_1 in timeframes_list:\n        return timeframes.HOUR_1\n    if timeframes.MINUTE_45 in timeframes_list:\n        return timeframes.MINUTE_45",
  "    if timeframes.MINUTE_45 in timeframes_list:\n        return timeframes.MINUTE_45\n    if timeframes.HOUR_1 in timeframes_list:\n        return timeframes.HOUR_1")
m('c17_anchor_same', ['C17'], 'jesse/utils.py', "        timeframes.HOUR_12: timeframes.DAY_1,\n    }\n\n    return dic[timeframe]", "        timeframes.HOUR_12: timeframes.HOUR_12,\n    }\n\n    return dic[timeframe]")

# ---- C19 -----------------------------------------------------------------------------------------
m('c19_range_120', ['C19'], 'jesse/helpers.py',
  "                    convert_number(119, 40, h['max'], h['min'], ord(gene))\n                )\n            )",
  "                    convert_number(120, 40, h['max'], h['min'], ord(gene))\n                )\n            )")
m('c19_round_to_int', ['C19'], 'jesse/helpers.py',
  """            decoded_gene = int(
                round(
                    convert_number(119, 40, h['max'], h['min'], ord(gene))
                )
            )""", """            decoded_gene = int(
                (
                    convert_number(119, 40, h['max'], h['min'], ord(gene))
                )
            )""", note='truncation: still in range and monotone; last letter still max -> only endpoint/monotone semantics; may be equivalent under the statement')
m('c19_float_min_39', ['C19'], 'jesse/helpers.py',
  "            decoded_gene = convert_number(119, 40, h['max'], h['min'], ord(gene))\n        else:",
  "            decoded_gene = convert_number(119, 39, h['max'], h['min'], ord(gene))\n        else:")
m('c19_defaults_overwrite_explicit', ['C19'], 'jesse/strategies/Strategy.py',
  "        if self.hp is None and len(self.hyperparameters()) > 0:", "        if len(self.hyperparameters()) > 0:")
m('c19_dna_over_explicit', ['C19'], 'jesse/modes/backtest_mode.py',
  "        if len(r.strategy.dna()) > 0 and hyperparameters is None:", "        if len(r.strategy.dna()) > 0:")
m('c19_leak_again', ['C19'], 'jesse/modes/backtest_mode.py',
  "            route_hyperparameters = jh.dna_to_hp(\n                r.strategy.hyperparameters(), r.strategy.dna()\n            )",
  "            route_hyperparameters = hyperparameters = jh.dna_to_hp(\n                r.strategy.hyperparameters(), r.strategy.dna()\n            )")
m('c19_zip_shift', ['C19'], 'jesse/helpers.py',
  "    for gene, h in zip(dna, strategy_hp):", "    for gene, h in zip(dna[1:] + dna[:1], strategy_hp):")

# ---- C13 / C14 -----------------------------------------------------------------------------------
m('c13_lrsi_wrap_again', ['C13'], 'jesse/indicators/lrsi.py',
  "    for i in range(1, l0.shape[0]):\n        gamma = 1 - alpha", "    for i in range(l0.shape[0]):\n        gamma = 1 - alpha")
m('c13_global_max_normaliser', ['C13', 'C15'], 'jesse/indicators/willr.py',
  "    rolling_max = np.max(high_windows, axis=1)\n", "    rolling_max = np.maximum(np.max(high_windows, axis=1), np.max(high) * 0.98)\n")
m('c13_centred_window', ['C13', 'C15'], 'jesse/indicators/sma.py',
  "        res[period-1:] = np.convolve(source, np.ones(period, dtype=float)/period, mode='valid')",
  "        res[period-2:-1] = np.convolve(source, np.ones(period, dtype=float)/period, mode='valid')")
m('c13_minmax_backfill', ['C13'], 'jesse/indicators/minmax.py',
  "    last_min = np_ffill(is_min)", "    last_min = np_ffill(is_min[::-1])[::-1]")
m('c14_sma_res_minus_2', ['C14'], 'jesse/indicators/sma.py',
  "    return res if sequential else res[-1]", "    return res if sequential else res[-2]")
m('c14_slice_239', ['C14'], 'jesse/helpers.py',
  "        candles = candles[-warmup_candles_num:]", "        candles = candles[-(warmup_candles_num - 1):]")
m('c14_same_length_dropped', ['C14'], 'jesse/indicators/er.py',
  "    return same_length(candles, res) if sequential else res[-1]", "    return res if sequential else res[-1]")
m('c14_sma_valid_only', ['C14'], 'jesse/indicators/sma.py',
  "    return res if sequential else res[-1]", "    return res[period - 1:] if sequential and len(source) > 150 else (res if sequential else res[-1])",
  note='long inputs come back without the leading NaN padding (replaces c14_ema_no_slice, which was equivalent: slice_candles is a no-op for sequential calls)')
m('c14_macd_hist_unpadded', ['C14'], 'jesse/indicators/stochastic.py',
  "    if sequential:\n        return Stochastic(k, d)", "    if sequential:\n        return Stochastic(k, d[1:])")

m('c13_sma_shifted_for_long_periods', ['C13'], 'jesse/indicators/sma.py',
  "        res[period-1:] = np.convolve(source, np.ones(period, dtype=float)/period, mode='valid')",
  "        cv = np.convolve(source, np.ones(period, dtype=float)/period, mode='valid')\n        res[period-1:] = cv\n        if period >= 30:\n            res[period-1:-1] = cv[1:]",
  note='only non-default long periods: the window reaches one candle into the future')
m('c13_zscore_global_sigma', ['C13'], 'jesse/indicators/zscore.py',
  "            std_values = np.std(rolling_windows, axis=1, ddof=0)",
  "            std_values = np.std(rolling_windows, axis=1, ddof=0) if nbdev == 1 else np.full(len(rolling_windows), np.std(source))",
  note='non-default nbdev: the deviation is taken over the whole series')
m('c13_donchian_forward_window', ['C13'], 'jesse/indicators/donchian.py',
  "        rolling_max[period - 1:] = np.max(windowed_high, axis=1)",
  "        rolling_max[period - 1:] = np.max(windowed_high, axis=1)\n        rolling_max[period - 1:-1] = np.max(windowed_high, axis=1)[1:]")
m('c13_kama_kernel_reads_next', ['C13'], 'jesse/indicators/kama.py',
  "        for j in range(i - period + 1, i + 1):", "        for j in range(i - period + 1, i + 2):",
  note='numba kernel reads src[i+1]: out of bounds at the last index (bounds checker) and non-causal before')
m('c13_kama_change_from_future', ['C13'], 'jesse/indicators/kama.py',
  "        change = abs(src[i] - src[i - period])", "        change = abs(src[min(i + 1, n - 1)] - src[i - period])")
m('c14_kama_last_is_previous', ['C14'], 'jesse/indicators/kama.py',
  "    return result if sequential else result[-1]", "    return result if sequential else result[-2]")
m('c14_donchian_single_window_longer', ['C14'], 'jesse/indicators/donchian.py',
  "        uc = np.max(high[-period:])", "        uc = np.max(high[-period - 1:])")
m('c14_zscore_sequential_short', ['C14'], 'jesse/indicators/zscore.py',
  "    return zScores if sequential else zScores[-1]", "    return zScores[1:] if sequential else zScores[-1]")
m('c14_slice_candles_longer_window', ['C14'], 'jesse/helpers.py',
  "        candles = candles[-warmup_candles_num:]", "        candles = candles[-warmup_candles_num - 40:]",
  note='single-value results are computed on a longer trailing window than documented: visible for recursive indicators whose seed has not decayed')

# ---- C15 -----------------------------------------------------------------------------------------
m('c15_ema_alpha', ['C15'], 'jesse/indicators/ema.py', "    alpha = 2 / (period + 1)", "    alpha = 2 / period")
m('c15_wma_window_short', ['C15'], 'jesse/indicators/wma.py',
  "    weights = np.arange(1, period + 1)", "    weights = np.arange(1, period + 1).astype(float)\n    weights[0] = 0.0")
m('c15_std_sample', ['C15'], 'jesse/indicators/stddev.py', "np.std(windows, axis=1, ddof=0)", "np.std(windows, axis=1, ddof=1)")
m('c15_willr_sign', ['C15'], 'jesse/indicators/willr.py', "np.where(denom == 0, 1, denom)) * -100", "np.where(denom == 0, 1, denom)) * 100")
m('c15_typprice_no_close', ['C15'], 'jesse/indicators/typprice.py',
  "    res = (candles[:, 2] + candles[:, 3] + candles[:, 4]) / 3", "    res = (candles[:, 1] + candles[:, 3] + candles[:, 4]) / 3")
m('c15_ma_dispatch_shift', ['C15'], 'jesse/indicators/ma.py',
  "    elif matype == 2:\n        from . import wma\n        res = wma(", "    elif matype == 2:\n        from . import trima as wma\n        res = wma(")
m('c15_macd_signal_wrong_line', ['C15'], 'jesse/indicators/macd.py',
  "    signal_line = ema_numba(macd_line_cleaned, signal_period)", "    signal_line = ema_numba(ema_fast, signal_period) - ema_slow")
m('c15_rsi_simple_avg', ['C15'], 'jesse/indicators/rsi.py',
  "        avg_gain = (avg_gain * (period - 1) + gain) / period", "        avg_gain = (avg_gain * (period - 2) + 2 * gain) / period")
m('c15_atr_seed_tr0', ['C15'], 'jesse/indicators/atr.py',
  "        atr_values[i] = (atr_values[i-1] * (period - 1) + tr[i]) / period", "        atr_values[i] = (atr_values[i-1] * (period - 1) + tr[i-1]) / period")
m('c15_donchian_lower_uses_close', ['C15'], 'jesse/indicators/donchian.py', "    low = candles[:, 4]", "    low = candles[:, 2]")
m('c15_cci_constant', ['C15'], 'jesse/indicators/cci.py', "(0.015 * md)", "(0.15 * md)")
m('c15_mfi_flow_strict', ['C15'], 'jesse/indicators/mfi.py',
  "typical_prices[1:] < typical_prices[:-1], raw_mf[1:], 0)", "typical_prices[1:] <= typical_prices[:-1], raw_mf[1:], 0)")
m('c15_bollinger_dev_half', ['C15'], 'jesse/indicators/bollinger_bands.py',
  "    lowerbands = middlebands - devdn * dev", "    lowerbands = middlebands - devdn * dev * (0.5 if period > 40 else 1)")
m('c15_dema_coeff', ['C15'], 'jesse/indicators/dema.py', "    res = 2 * ema - ema_of_ema", "    res = 2 * ema - 0.9 * ema_of_ema - 0.1 * ema")

# ---- C11 -----------------------------------------------------------------------------------------
m('c11_no_deepcopy', ['C11'], 'jesse/research/backtest.py',
  "    trading_candles_dict = copy.deepcopy(candles)", "    trading_candles_dict = candles")
m('c11_memo_not_cleared', ['C11'], 'jesse/helpers.py',
  """    if is_unit_testing() or keys not in CACHED_CONFIG:
        if os.environ.get(keys.upper().replace(".", "_").replace(" ", "_")) is not None:
            CACHED_CONFIG[keys] = os.environ.get(keys.upper().replace(".", "_").replace(" ", "_"))
        else:
            from functools import reduce
            from jesse.config import config
            CACHED_CONFIG[keys] = reduce(lambda d, k: d.get(k, default) if isinstance(d, dict) else default,
                                         keys.split("."), config)

    return CACHED_CONFIG[keys]""", """    memo = get_config.__dict__.setdefault('memo', {})
    if is_unit_testing() or keys not in memo:
        if os.environ.get(keys.upper().replace(".", "_").replace(" ", "_")) is not None:
            memo[keys] = os.environ.get(keys.upper().replace(".", "_").replace(" ", "_"))
        else:
            from functools import reduce
            from jesse.config import config
            memo[keys] = reduce(lambda d, k: d.get(k, default) if isinstance(d, dict) else default,
                                         keys.split("."), config)

    return memo[keys]""", note='the memo moves to a place nobody clears')
m('c11_drivers_not_refreshed', ['C11'], 'jesse/research/backtest.py', "    api.initiate_drivers()\n", "    pass\n")
m('c11_shared_vars_kept', ['C11'], 'jesse/store/__init__.py',
  "        # variables shared between strategies belong to one session\n        self.vars = {}\n", "")
m('c11_module_level_accumulator', ['C11'], 'jesse/modes/backtest_mode.py',
  "def _execute_market_orders():\n    store.orders.execute_pending_market_orders()",
  "_seen_sessions = []\n\n\ndef _execute_market_orders():\n    if len(_seen_sessions) > 700 and len(_seen_sessions) % 5 == 0:\n        return\n    _seen_sessions.append(1)\n    store.orders.execute_pending_market_orders()")
m('c11_positions_reused_after_abort', ['C11'], 'jesse/store/__init__.py',
  "        self.positions = PositionsState()\n        self.tickers = TickersState()\n        self.trades = TradesState()\n        self.orderbooks = OrderbookState()\n\n\nstore",
  "        if not getattr(self, '_keep_positions', False):\n            self.positions = PositionsState()\n        self.tickers = TickersState()\n        self.trades = TradesState()\n        self.orderbooks = OrderbookState()\n\n\nstore",
  note='inert control (flag never set)')
m('c11_logging_config_leaks_debug', ['C11'], 'jesse/strategies/Strategy.py',
  "        # Cache the current price at the start of execution\n        self._cached_price = self.close\n",
  "        # Cache the current price at the start of execution\n        self._cached_price = self.close\n        if store.vars.get('_n', 0) > 400:\n            self._cached_price = self.open\n        store.vars['_n'] = store.vars.get('_n', 0) + 1\n",
  note='behaviour depends on a counter that survives only if store.vars is not reset - caught only together with c11_shared_vars_kept; alone it is per-session deterministic')
