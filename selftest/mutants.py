"""Catalogue of deliberate property-breaking changes (text substitutions on a scratch copy of jesse/).
Each: id, property ids expected to catch it, file, old, new, optional tier."""
M = []


def m(id, props, file, old, new, tier='quick', note=''):
    M.append({'id': id, 'props': props, 'file': file, 'old': old, 'new': new, 'tier': tier, 'note': note})


# ---- C18 ---------------------------------------------------------------------------------------
m('c18_grow_late', ['C18'], 'jesse/libs/dynamic_numpy_array/__init__.py',
  'if self.index + 1 >= len(self.array):', 'if self.index + 1 > len(self.array) + 1:')
m('c18_bulk_grow_short', ['C18'], 'jesse/libs/dynamic_numpy_array/__init__.py',
  'shape[0] = max(len(items), shape[0])', 'shape[0] = shape[0]')
m('c18_setslice_neg_start', ['C18'], 'jesse/libs/dynamic_numpy_array/__init__.py',
  """            if start is not None and start < 0:
                start = (self.index + 1) - abs(start)""", """            if start is not None and start < 0:
                start = self.index - abs(start)""")
m('c18_slice_stop_clip', ['C18'], 'jesse/libs/dynamic_numpy_array/__init__.py',
  'stop = min(stop, self.index + 1)', 'stop = min(stop, self.index)')
m('c18_neg_index_off_by_one', ['C18'], 'jesse/libs/dynamic_numpy_array/__init__.py',
  """            if i < 0:
                i = (self.index + 1) - abs(i)

            # validation
            if self.index == -1""", """            if i < 0:
                i = self.index - abs(i)

            # validation
            if self.index == -1""")
m('c18_drop_shift_wrong', ['C18'], 'jesse/libs/dynamic_numpy_array/__init__.py',
  """            self.index -= shift_num
            self.array = np_shift(self.array, -shift_num)

        self.array[self.index] = item""", """            self.index -= shift_num
            self.array = np_shift(self.array, -shift_num + 1)

        self.array[self.index] = item""")

# ---- C02 / C08 -----------------------------------------------------------------------------------
m('c02_includes_strict_low', ['C02', 'C08'], 'jesse/services/candle.py',
  'return (price >= candle[4]) and (price <= candle[3])', 'return (price > candle[4]) and (price <= candle[3])')
m('c02_jump_forgets_bound', ['C02', 'C07'], 'jesse/modes/backtest_mode.py',
  """        candle[1] = previous_candle[2]
        candle[4] = min(previous_candle[2], candle[4])""", """        candle[1] = previous_candle[2]""")
m('c02_match_stops_after_first_fill', ['C02', 'C08'], 'jesse/modes/backtest_mode.py',
  """                    order.execute()
                    executing_orders = _get_executing_orders(exchange, symbol, current_temp_candle)
                    if len(executing_orders) > 1:
                        # extend the candle shape from (6,) to (1,6)
                        executing_orders = _sort_execution_orders(executing_orders, current_temp_candle[None, :])
""", """                    order.execute()
                    executing_orders = []
""")
m('c02_no_market_flush_in_step', ['C02'], 'jesse/modes/backtest_mode.py',
  """        # now check to see if there's any MARKET orders waiting to be executed
        _execute_market_orders()

        if i != 0 and i % 1440 == 0:
            save_daily_portfolio_balance()

    _finish_progress_bar(progressbar, run_silently)

    execution_duration = 0
    if not run_silently:
        # print executed time for the backtest session
        finish_time_track = time.time()
        execution_duration = round(finish_time_track - begin_time_track, 2)

    for r in router.routes:
        r.strategy._terminate()
        _execute_market_orders()

    # now that backtest simulation is finished, add finishing balance
    save_daily_portfolio_balance()

    # set the ending time for the backtest session
    store.app.ending_time = store.app.time + 60_000

    result = _generate_outputs(
        candles,
        generate_tradingview=generate_tradingview,
        generate_csv=generate_csv,
        generate_json=generate_json,
        generate_equity_curve=generate_equity_curve,
        benchmark=benchmark,
        generate_hyperparameters=generate_hyperparameters,
        generate_logs=generate_logs,
    )
    result['execution_duration'] = execution_duration
    return result


def _simulation_minutes_length""", """        if i != 0 and i % 1440 == 0:
            save_daily_portfolio_balance()

    _finish_progress_bar(progressbar, run_silently)

    execution_duration = 0
    if not run_silently:
        # print executed time for the backtest session
        finish_time_track = time.time()
        execution_duration = round(finish_time_track - begin_time_track, 2)

    for r in router.routes:
        r.strategy._terminate()
        _execute_market_orders()

    # now that backtest simulation is finished, add finishing balance
    save_daily_portfolio_balance()

    # set the ending time for the backtest session
    store.app.ending_time = store.app.time + 60_000

    result = _generate_outputs(
        candles,
        generate_tradingview=generate_tradingview,
        generate_csv=generate_csv,
        generate_json=generate_json,
        generate_equity_curve=generate_equity_curve,
        benchmark=benchmark,
        generate_hyperparameters=generate_hyperparameters,
        generate_logs=generate_logs,
    )
    result['execution_duration'] = execution_duration
    return result


def _simulation_minutes_length""", note='market orders from fill hooks are only flushed by the next strategy step')
m('c02_fast_skips_last_minute', ['C02', 'C12'], 'jesse/modes/backtest_mode.py',
  '        for i in range(len(short_timeframes_candles)):\n            current_temp_candle = short_timeframes_candles[i].copy()',
  '        for i in range(max(1, len(short_timeframes_candles) - 1)):\n            current_temp_candle = short_timeframes_candles[i].copy()')
m('c08_sort_swap_red_green', ['C08', 'C02'], 'jesse/modes/backtest_mode.py',
  'is_red = short_candles[i, 1] > short_candles[i, 2]', 'is_red = short_candles[i, 1] < short_candles[i, 2]')
m('c08_sort_below_ascending', ['C08', 'C02'], 'jesse/modes/backtest_mode.py',
  "sorted_orders += sorted(below_open, key=lambda o: o.price, reverse=True) + sorted(above_open, key=lambda o: o.price)",
  "sorted_orders += sorted(below_open, key=lambda o: o.price) + sorted(above_open, key=lambda o: o.price)")
m('c08_split_wrong_half', ['C08'], 'jesse/services/candle.py',
  """        return np.array([
            timestamp, o, price, price, l, v
        ]), np.array([
            timestamp, price, c, h, c, v
        ]),""", """        return np.array([
            timestamp, o, price, price, l, v
        ]), np.array([
            timestamp, price, c, h, l, v
        ]),""")
m('c08_is_bullish_strict', ['C08'], 'jesse/services/candle.py',
  'return candle[2] >= candle[1]', 'return candle[2] > candle[1]')
m('c08_split_bear_close_branch', ['C08'], 'jesse/services/candle.py',
  """    elif is_bearish(candle) and price == c:
        return np.array([
            timestamp, o, c, h, c, v
        ]), np.array([
            timestamp, price, price, price, l, v
        ])""", """    elif is_bearish(candle) and price == c:
        return np.array([
            timestamp, o, c, h, c, v
        ]), np.array([
            timestamp, price, price, price, price, v
        ])""")
