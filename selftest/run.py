#!/usr/bin/env python3
"""Applies each catalogued mutant to a scratch copy of the repository (outside /repo and /verif), runs the checks that
are expected to catch it and reports exit codes. Usage: selftest/run.py [mutant-id-prefix ...] [--props C02,C08]"""
import json
import os
import shutil
import subprocess
import sys
import tempfile
import time

HERE = os.path.dirname(os.path.dirname(os.path.abspath(__file__)))
sys.path.insert(0, os.path.join(HERE, 'selftest'))
import mutants  # noqa


def main(argv):
    only_props = None
    if '--props' in argv:
        i = argv.index('--props')
        only_props = argv[i + 1].split(',')
        argv = argv[:i] + argv[i + 2:]
    sel = [x for x in mutants.M if not argv or any(x['id'].startswith(a) for a in argv)]
    results = []
    for mu in sel:
        scratch = tempfile.mkdtemp(prefix='vfmut-', dir='/tmp')
        try:
            shutil.copytree('/repo/jesse', os.path.join(scratch, 'jesse'),
                            ignore=shutil.ignore_patterns('_nuxt', '__pycache__'))
            path = os.path.join(scratch, mu['file'])
            src = open(path).read()
            if src.count(mu['old']) != 1:
                print(f"MUTANT {mu['id']}: pattern occurs {src.count(mu['old'])} times - skipped")
                results.append((mu['id'], 'pattern', None))
                continue
            open(path, 'w').write(src.replace(mu['old'], mu['new']))
            for prop in mu['props']:
                if only_props and prop not in only_props:
                    continue
                if not os.path.exists(os.path.join(HERE, 'vf', 'checks', prop.lower() + '.py')):
                    continue
                t0 = time.time()
                env = dict(os.environ, VERIF_REPO=scratch)
                p = subprocess.run([os.path.join(HERE, 'check'), prop, mu['tier']], env=env, capture_output=True,
                                   text=True, cwd=HERE)
                lines = [l for l in p.stdout.splitlines() if l.startswith(('VIOLATION', '  mechanism', 'INCONCLUSIVE'))]
                print(f"MUTANT {mu['id']} x {prop}: exit {p.returncode} in {time.time() - t0:.0f}s "
                      f"{'CAUGHT' if p.returncode == 1 else 'MISSED'}")
                for l in lines[:4]:
                    print('    ' + l[:260])
                results.append((mu['id'], prop, p.returncode))
        finally:
            shutil.rmtree(scratch, ignore_errors=True)
            # numba caches of the scratch tree
            for d in os.listdir(os.path.join(HERE, '.cache')) if os.path.isdir(os.path.join(HERE, '.cache')) else []:
                pass
    missed = [r for r in results if r[2] not in (1, None)]
    print(f'{len(results)} runs, {len(missed)} not caught: {missed}')
    # (runs against a scratch tree write their evidence under .cache/evidence-scratch: evidence/ is not touched)


if __name__ == '__main__':
    main(sys.argv[1:])
