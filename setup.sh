#!/bin/bash
# Offline set-up: nothing to install (the checks use /venv/bin/python with the repository's own
# packages and the standard library only). Creates scratch directories and warms the numba caches.
HERE="$(cd "$(dirname "${BASH_SOURCE[0]}")" && pwd)"
cd "$HERE" || exit 1
mkdir -p .cache/work evidence replays
export PYTHONHASHSEED=0
/venv/bin/python -W ignore - <<PY || exit 1
import sys, os, subprocess
sys.path.insert(0, '$HERE')
from vf import env
import numpy, numba
procs = []
for tag, extra in (('default', {}), ('bc', {'NUMBA_BOUNDSCHECK': '1'})):
    e = env.worker_env(extra, tag)
    procs.append(subprocess.Popen([env.PY, '-W', 'ignore', os.path.join('$HERE', 'tools', 'warm.py')], env=e))
for p in procs:
    p.wait()
print('setup ok', numpy.__version__, numba.__version__)
PY
exit 0
