#!/bin/bash
# Offline set-up: nothing to install (the checks use /venv/bin/python with the repository's own
# packages and the standard library only). Creates scratch directories and warms the numba cache.
HERE="$(cd "$(dirname "${BASH_SOURCE[0]}")" && pwd)"
cd "$HERE" || exit 1
mkdir -p .cache/work evidence replays
export PYTHONHASHSEED=0
/venv/bin/python -W ignore -c "import sys; sys.path.insert(0, '$HERE'); from vf import env; env.use_repo(); import numpy, numba; print('setup ok', numpy.__version__, numba.__version__)" || exit 1
exit 0
