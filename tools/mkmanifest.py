#!/usr/bin/env python3
"""Regenerates /verif/MANIFEST.json from the table below and validates it (python3-vt has jsonschema)."""
import json
import os
import sys

HERE = os.path.dirname(os.path.dirname(os.path.abspath(__file__)))
BASELINE = ("cd /repo && env -u JESSE_VERIF /venv/bin/python -m pytest -ra -q -p no:cacheprovider --timeout=900 "
            "--continue-on-collection-errors")

CHECKS = {
    'C18': dict(
        technique='runtime shadow-model monitor (list model) over bounded-exhaustive and random operation histories',
        text=('Every operation of generated histories is applied to the real DynamicNumpyArray and to a list-of-rows model; '
              'after each operation the complete observable state (len, all indices, all slice bounds, last/past item) is '
              'read back and compared. Exhaustive over short sequences for bucket sizes 2/3, random long histories for larger '
              'buckets and drop_at. Held on the executions explored - not a proof for all histories.'),
        note='trusts numpy and the 60-line list model in vf/checks/c18.py; negative delete indices and step slices are not driven',
        ref='DESIGN.md section 3 C18'),
    'C02': dict(
        technique='event-trace monitor: offline polyline-path checker over recorded order/candle events of real backtests',
        text=('Random scripted sessions (both simulators, spot/futures, gaps, flats, lattice prices) run through the real '
              'research.backtest under the tracer; every fill, every end of minute and every end of chunk is judged against '
              'the independent intra-minute path model (fill on the remaining path, path order respected, nothing in range left '
              'active, market orders executed at once at the current price). Held on the executions explored.'),
        note='trusts vf/pathmon.py (polyline model) and vf/gen.normalise; the fast simulator is judged with the same model minute by minute inside each chunk',
        ref='DESIGN.md section 3 C02'),
    'C08': dict(
        technique='event-trace monitor over bounded-exhaustive lattice arrangements executed by the real step simulator + split_candle oracle',
        text=('Part A runs the real step simulator on every (thorough) / a sample of (quick) arrangement of previous close, '
              'O/H/L/C, <=3 resting orders and a reaction order on a 5-level lattice and judges the fill sequence with the '
              'polyline path model; Part B checks split_candle on every valid lattice candle x price and on random candles.'),
        note='exhaustive only for the stated lattice sub-spaces; real-valued candles are sampled',
        ref='DESIGN.md section 3 C08'),
    'C01': dict(
        technique='two-run differential trace monitor (hyperproperty): identical prefix candles, adversarial replacement tails',
        text=('Each base session is re-run with every candle from a chosen cut index onwards replaced (sweep across all resting '
              'prices / jump away / random); the complete tracer logs (every hook with digests of every readable candle array, '
              'price, position, balance, margin; every order event; every stored candle) must be identical up to the cut, in '
              'both simulators. Cuts are chosen from the base trace where a peek would matter.'),
        note='reach = scripted strategy family and route sets generated; prefix delimited by the simulated clock (normal) / chunk starts (fast)',
        ref='DESIGN.md section 3 C01'),
    'C07': dict(
        technique='online hook monitor: every readable candle array vs independent aggregation of the readable 1m candles',
        text=('Inside every strategy hook (regular steps and fill hooks) of random sessions, every (symbol, timeframe) array and '
              'current candle is compared with the aggregation of the 1m candles readable at that instant, and the stored 1m '
              'candles with the normalised input; generation helpers and the three timeframe tables are checked directly.'),
        note='trusts vf/gen.aggregate and vf/gen.normalise; timeframes up to 6h driven',
        ref='DESIGN.md section 3 C07'),
    'C12': dict(
        technique='two-run differential trace monitor: normal vs fast simulator under a precondition evaluated on the normal trace',
        text=('Single-symbol sessions are run by both simulators; when the normal trace has <= 1 resting fill per trading-candle '
              'window and no liquidation, executed orders (side, type, qty, price, fill minute), closed trades, final metrics and '
              'balances must agree.'),
        note='sessions failing the precondition are counted, never judged',
        ref='DESIGN.md section 3 C12'),
    'C03': dict(
        technique='online shadow-model monitor (exact rational average-cost margin account) over generated operation histories on the real objects',
        text=('Legal submit/cancel/execute/price-move histories are applied to the real Order/Position/FuturesExchange objects of a '
              'prepared store and to the reference account; wallet, position, entry, unrealised PnL and available margin are '
              'compared after every operation and every accept/InsufficientMargin decision against the model threshold '
              '(strictly on exactly representable dyadic histories).'),
        note='trusts vf/models.AccountFutures; a stub strategy cancels resting orders when a position closes, as the statement prescribes',
        ref='DESIGN.md section 3 C03'),
    'C04': dict(
        technique='online shadow-model monitor (cash account) over generated operation histories on the real objects',
        text=('Buy/sell MARKET/LIMIT/STOP histories with decimal quantities, cancellations and cancel-then-bigger-sell patterns on '
              'the real SpotExchange/Position; balances, position size, non-negativity and every accept/InsufficientBalance '
              'decision are compared with the reference cash account after every operation.'),
        note='trusts vf/models.AccountSpot; resting sells are reduce-only as the strategy layer submits them',
        ref='DESIGN.md section 3 C04'),
    'C05': dict(
        technique='runtime assertion monitor on Order.execute/cancel with state snapshots + fault injection of duplicate calls',
        text=('Wrappers around the real Order.execute/cancel record every status transition and, for calls on already-final '
              'orders (made by the simulator itself or injected by the monitor at quiescent points, incl. cancel-all with queued '
              'market orders), compare a full state snapshot before/after; the active-order view and the one-trade-per-fill rule '
              'are checked at every quiescent point of direct-drive histories and backtest sessions.'),
        note='snapshot covers balances, margin tables, committed sums, positions, available margin, trade log, liquidation counter',
        ref='DESIGN.md section 3 C05'),
    'C06': dict(
        technique='offline trace checker: reference cycle tracker over recorded fills vs observed hooks and closed-trade records',
        text=('Fills of real sessions and of direct-drive histories with the real strategy attached drive a reference cycle tracker; '
              'each fill must be followed by exactly the hook its effect implies with the implied position size, each completed '
              'cycle by exactly one closed trade matching the cycle\'s fills, and in futures the closed trades\' net PnL must equal '
              'the wallet change (and net_profit the balance change).'),
        note='one genuine defect is recorded as a known finding (position flip reported as a single open), keyed by mechanism; the oversize reduce-only booking defect was repaired',
        ref='DESIGN.md section 3 C06'),
    'C09': dict(
        technique='offline trace checker over steered sessions (entry planned, candles built around the reference liquidation level)',
        text=('At every liquidation check of every minute/chunk the monitor decides from the position snapshot, the independent '
              'formulas and the harness\'s own candle range whether a forced close must / must not happen and checks its form '
              '(one reduce-only market fill of the whole position at the bankruptcy price, counter +1, no resting orders left, wallet '
              'loss = initial margin + fee); leverage 1..125, long/short, averaged entries, one-ulp touches, gaps, protective stops, '
              'cross and spot controls, both simulators.'),
        note='the reference prices use the documented formulas evaluated in the same floating-point order (strict one-ulp boundary tests)',
        ref='DESIGN.md section 3 C09'),
    'C10': dict(
        technique='offline trace checker of declarations vs submitted/active orders + dense sweep of the routing rule through the real broker',
        text=('Every submitted order of scripted sessions is matched to a row of the strategy\'s latest logged declaration and its type '
              'to the routing rule at the current price; at every after() active exits are matched injectively to the latest '
              'declaration (no stale exit, none after close); entry cancellations are compared with should_cancel_entry(); the rule '
              'is swept densely around the 0.015 % boundary (incl. float neighbours) through the real routing functions.'),
        note='wrong-sided initial exits (replaced by market orders, a documented convenience) are not driven',
        ref='DESIGN.md section 3 C10'),
    'C16': dict(
        technique='reference-model monitors: plain-Python recomputation of metrics on synthetic trade lists / balance series + shadow-account equity vs every daily sample of real sessions',
        text=('Part A/B call the real metrics.trades on synthetic ClosedTrade lists (all degenerate classes) and balance series '
              'and compare every identity / ratio with an independent recomputation; Part C compares each sample appended by the '
              'daily sampler in multi-day sessions (futures, spot, one and two routes in both orders, both simulators) with the '
              'equity of a shadow account fed only by order events, plus series length and end points.'),
        note='drawdown reading = compounded returns (start not a peak); Sortino accepts N or N+1 in the downside denominator',
        ref='DESIGN.md section 3 C16'),
    'C20': dict(
        technique='direct oracle on bounded-exhaustive/random inputs + shadow-model monitor ({timestamp: row}) over add sequences on the real candle store',
        text=('_fill_absent_candles on every missing-minute pattern up to 10 minutes and random patterns to 1500 minutes; random '
              'sequences of add_candle / add_multiple_1m_candles (new, repeated, older known/unknown, overlapping bulk) on a real '
              'store compared with a timestamp-keyed model after every operation; leading-spacing validation of research.backtest.'),
        note='exhaustive only for intervals <= 10 minutes',
        ref='DESIGN.md section 3 C20'),
    'C17': dict(
        technique='direct oracle in exact rational arithmetic on generated inputs + acceptance monitor through the real Order/exchange objects',
        text=('size_to_qty / risk_to_qty / sum_floats / subtract_floats / round_qty_for_live_mode / limit_stop_loss are evaluated on '
              'hundreds of thousands of generated inputs (log-uniform, decimal grids, near-integer quotients) and judged in exact '
              'rationals; sized orders are submitted to a fresh spot / 1x futures account holding exactly the capital; timeframe tables, '
              'max_timeframe on all subsets up to size 4 and anchor_timeframe are compared with the lengths parsed from the names.'),
        note='relative slack 1e-12 for decimal literals; acceptance judged without slack (one known finding, fee 0)',
        ref='DESIGN.md section 3 C17'),
    'C19': dict(
        technique='exhaustive direct oracle on the real decoder + trace monitor of strategy.hp inside real backtests',
        text=('dna_to_hp on every letter of the 80-letter alphabet x gene positions 0..3 x hundreds of declarations (range, type, '
              'position independence, monotonicity, end points); backtest sessions for all 8 combinations of defaults / explicit / '
              'dna() on one and two routes record the hp each strategy sees in before().'),
        note='Part 2 compares with the real decoder output (checked in Part 1)',
        ref='DESIGN.md section 3 C19'),
    'C13': dict(
        technique='differential monitor on the real indicator functions (prefix vs full series) under numba bounds checking, plus repeatability probe',
        text=('For all ~168 public indicators with a sequential mode, default and non-default parameters, structured series and '
              'several prefix lengths, every field of f(X[:k]) is compared with the prefix of f(X); workers run with '
              'NUMBA_BOUNDSCHECK=1 so that out-of-range kernel indexing raises (thorough: also plain JIT and NUMBA_DISABLE_JIT).'),
        note='known findings: rma/dx (index -1 wrap-around) and er (global normaliser) cannot be repaired without breaking pinned tests',
        ref='DESIGN.md section 3 C13'),
    'C14': dict(
        technique='differential monitor on the real indicator functions (sequential vs non-sequential, trailing warm-up window)',
        text=('Per indicator / parameter set / input length in {60, 239, 240, 241, 400, 1000}: sequential length per field, last '
              'sequential value vs non-sequential value, non-sequential value on long inputs vs sequential value on the trailing '
              '240 candles; documented exemption for the extrema detector.'),
        note='known finding: squeeze_momentum third field has n-1 entries (pinned by its unit test)',
        ref='DESIGN.md section 3 C14'),
    'C15': dict(
        technique='reference-model monitor: independent textbook implementations vs the real indicators; dispatcher differential; invariants',
        text=('Window functions compared at every full-window index, recursive smoothers in their recurrence step and in value after '
              'seed decay (3000-candle series), ma(matype=k) vs the k-th moving average for all 37 valid matypes, range / ordering / '
              'non-negativity invariants and price homogeneity, on random and adversarial series (constant, monotone, alternating, '
              'huge, tiny), periods 2..60, every source type.'),
        note='trusts the ~150 lines of plain-loop references in vf/checks/c15.py; conventions listed in the evidence assumptions',
        ref='DESIGN.md section 3 C15'),
    'C11': dict(
        technique='two-process differential monitor: probe call in a fresh process vs after a history of other / aborted calls (fault injection incl. sys.monitoring line failpoints)',
        text=('Every probe is run in a fresh process and, in other processes, after histories of 1-4 earlier research.backtest calls '
              'that vary exchange name, exchange type under the same name, leverage, mode, fee, balance, routes, warm-up, simulator, '
              'or abort (hook exception, order rejection, line failpoint inside the simulator); result and full tracer log must be '
              'equal, arguments unmodified, consecutive identical calls equal. The probe strategy also reads a warm-up dependent '
              'indicator and the shared-vars store so that leaks of the configuration memo and of shared state are observable.'),
        note='one process per history (ISOLATE); the harness clears no jesse state between calls of a history',
        ref='DESIGN.md section 3 C11'),
}

NOT_YET = 'check under construction in this round (see DESIGN.md section 3); not claimed until it runs clean on the unchanged tree'


def main():
    ids = [json.loads(l)['id'] for l in open(os.path.join(HERE, 'properties.jsonl'))]
    checks, na = [], []
    for pid in ids:
        c = CHECKS.get(pid)
        if not c:
            na.append({'property_id': pid, 'reason': NOT_YET})
            continue
        checks.append({
            'property_id': pid,
            'quick_cmd': f'./check {pid} quick',
            'thorough_cmd': f'./check {pid} thorough',
            'evidence_file': f'/verif/evidence/{pid}.json',
            'replay_cmd_template': f'./check {pid} --replay {{path}}',
            'engine': 'vf',
            'level_claimed': {'category': 'exploration', 'text': c['text'], 'design_ref': c['ref']},
            'level_note': c['note'],
            'technique': c['technique'],
        })
    m = {
        'version': 1,
        'setup_cmd': './setup.sh',
        'hooks': {
            'guard': 'JESSE_VERIF',
            'enable': ('no source hooks: monitors are attached from the harness by wrapping attributes of the real '
                       'classes/modules in worker processes (JESSE_VERIF=1 is exported to the workers for completeness)'),
            'baseline_off_cmd': BASELINE,
            'source_commits': [],
            'add_only': True,
        },
        'engines': [{'name': 'vf', 'path': '/verif/vf', 'serves_properties': [c['property_id'] for c in checks],
                     'kind_free_text': 'runtime monitoring harness: tracer + shadow models + offline trace checkers, '
                                       'parallel worker processes on /repo working tree'}],
        'checks': checks,
        'not_applicable': na,
        'notes': ('All checks: ./check <ID> quick|thorough, exit 0 held / 1 VIOLATION / 2 inconclusive. VERIF_SEED selects the '
                  'workload seed. known_findings.json lists recorded genuine defects (status known) and repaired ones (fixed).'),
    }
    path = os.path.join(HERE, 'MANIFEST.json')
    with open(path, 'w') as f:
        json.dump(m, f, indent=1)
    try:
        import jsonschema
        jsonschema.validate(m, json.load(open('/root/.vp/MANIFEST.schema.json')))
        print('MANIFEST valid;', len(checks), 'checks,', len(na), 'not claimed')
    except ImportError:
        print('written (jsonschema unavailable in this interpreter)')


if __name__ == '__main__':
    main()
