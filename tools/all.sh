#!/bin/bash
# runs every check of one tier sequentially: tools/all.sh quick|thorough [seed]
cd "$(dirname "$0")/.." || exit 2
TIER=${1:-quick}
export VERIF_SEED=${2:-0}
[ -d .cache ] || ./setup.sh
rc=0
for c in C01 C02 C03 C04 C05 C06 C07 C08 C09 C10 C11 C12 C13 C14 C15 C16 C17 C18 C19 C20; do
  s=$(date +%s)
  out=$(./check $c "$TIER" 2>&1); r=$?
  echo "== $c $TIER seed=$VERIF_SEED exit=$r $(( $(date +%s) - s ))s"
  echo "$out" | grep -E "^(VIOLATION|INCONCLUSIVE|KNOWN-FINDING|  mechanism)" | cut -c1-300
  [ $r -ne 0 ] && rc=1
done
exit $rc
