#!/bin/bash
# tools/seed_matrix.sh [seeds...]  - every stored seeded change x the quick check of its property x several VERIF_SEEDs
# (patch applied to a fresh scratch worktree of /repo HEAD under /tmp, removed afterwards; evidence/ is not touched)
cd "$(dirname "$0")/.." || exit 2
SEEDS=${@:-1 2 3}
miss=0
for d in seeded/*/; do
  D=$(basename $d); ID=${D%%-*}
  R=/tmp/seedmx-$D
  rm -rf $R; git -C /repo worktree prune
  git -C /repo worktree add -q --detach $R HEAD || continue
  if ! git -C $R apply $PWD/$d/patch.diff 2>/dev/null; then echo "$D patch does not apply"; git -C /repo worktree remove --force $R; continue; fi
  line="$D:"
  for s in $SEEDS; do
    VERIF_SEED=$s VERIF_REPO=$R ./check $ID quick >/dev/null 2>&1; rc=$?
    line="$line seed$s=$rc"
    [ $rc -ne 1 ] && miss=$((miss+1))
  done
  echo "$line"
  git -C /repo worktree remove --force $R
done
echo "runs not caught: $miss"
