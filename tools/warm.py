"""Warms the numba kernel caches used by the indicator checks (run by setup.sh in two modes, in parallel)."""
import sys
import os
sys.path.insert(0, os.path.dirname(os.path.dirname(os.path.abspath(__file__))))
from vf import env  # noqa
env.use_repo()
from vf import indlib  # noqa
X = indlib.series('walk', 300, 1)
X2 = indlib.series('walk', 300, 2)
n = 0
for name, f, sig in indlib.indicators():
    for seq in (True, False):
        try:
            indlib.call(name, f, sig, X, {}, seq, X2)
            n += 1
        except Exception:
            pass
print('warmed', n, 'calls', os.environ.get('NUMBA_CACHE_DIR'))
