#!/bin/bash
# tools/seed_verify.sh <ID> [extra check ids...]
#  1. confirms the seeded change in the scratch worktree /tmp/seed-<ID> where the sub-agent wrote it (suite passes with
#     the change, demo fails with it and passes without it) and stores patch/demo/notes under seeded/<ID>/  (skipped when
#     that worktree is gone: the stored confirmation is kept)
#  2. applies seeded/<ID>/patch.diff to a fresh scratch worktree of /repo's current HEAD (under /tmp, removed afterwards)
#     and runs the check(s) against it (VERIF_REPO), recording exit codes and mechanisms in seeded/<ID>/meta.json
ID=$1; shift
V=/verif
# SEED_ROUND=2 tools/seed_verify.sh C01  -> worktree /tmp/seed2-C01, stored under seeded/C01-r2
if [ -n "$SEED_ROUND" ] && [ "$SEED_ROUND" != "1" ]; then W=/tmp/seed$SEED_ROUND-$ID; D=$ID-r$SEED_ROUND; else W=/tmp/seed-$ID; D=$ID; fi
mkdir -p $V/seeded/$D
conf=""
if [ -d $W ]; then
  cd $W || exit 2
  git diff > $V/seeded/$D/patch.diff
  cp demo.py $V/seeded/$D/demo.py 2>/dev/null
  cp SEED_NOTES.md $V/seeded/$D/SEED_NOTES.md 2>/dev/null
  suite=$(PYTHONPATH=$W /venv/bin/python -m pytest -q -p no:cacheprovider tests 2>&1 | grep -E "passed|failed" | tail -1)
  PYTHONPATH=$W /venv/bin/python -W ignore demo.py > /tmp/demo-$ID-with.log 2>&1; with=$?
  # (no `git stash`: the stash is shared by all worktrees of a repository)
  git apply -R $V/seeded/$D/patch.diff
  PYTHONPATH=$W /venv/bin/python -W ignore demo.py > /tmp/demo-$ID-without.log 2>&1; without=$?
  git apply $V/seeded/$D/patch.diff
  echo "suite_with_change: $suite | demo with change exit=$with | demo without change exit=$without"
  conf="{\"suite_with_change\":\"$suite\",\"demo_exit_with_change\":$with,\"demo_exit_without_change\":$without}"
fi
R=/tmp/seedrun-$D
rm -rf $R; git -C /repo worktree prune
git -C /repo worktree add -q --detach $R HEAD || exit 2
if ! git -C $R apply $V/seeded/$D/patch.diff; then echo "patch does not apply to current HEAD"; applied=false; else applied=true; fi
cd $V
res=""
if $applied; then
  PYTHONPATH=$R /venv/bin/python -W ignore $V/seeded/$D/demo.py > /tmp/demo-$ID-head.log 2>&1; dh=$?
  echo "demo on current HEAD + patch: exit=$dh"
  for c in $ID "$@"; do
    out=$(VERIF_REPO=$R ./check $c quick 2>&1); rc=$?
    mech=$(echo "$out" | grep "mechanism=" | sed 's/ witnesses.*//; s/^ *mechanism=//' | tr '\n' ',' )
    echo "check $c quick on HEAD+patch: exit=$rc mechanisms=$mech"
    res="$res{\"check\":\"$c\",\"tier\":\"quick\",\"exit\":$rc,\"mechanisms\":\"$mech\"},"
  done
fi
git -C /repo worktree remove --force $R
/venv/bin/python - "$ID" "$conf" "[${res%,}]" "${dh:-null}" "$D" <<'PY'
import json, sys, os, subprocess
ID, conf, res, dh, D = sys.argv[1:6]
meta_path = f'/verif/seeded/{D}/meta.json'
meta = json.load(open(meta_path)) if os.path.exists(meta_path) else {}
meta.update({'property': ID, 'source': 'sub-agent given only the property text and its own scratch worktree of /repo'})
if conf:
    meta['confirmed'] = json.loads(conf)
meta['how_run'] = ('patch.diff applied to a fresh scratch worktree of /repo HEAD under /tmp (removed afterwards); checks run with '
                   'VERIF_REPO pointing at it')
meta['repo_head_when_run'] = subprocess.run(['git', '-C', '/repo', 'rev-parse', '--short', 'HEAD'], capture_output=True, text=True).stdout.strip()
meta['demo_exit_on_head_plus_patch'] = None if dh == 'null' else int(dh)
meta['check_results'] = json.loads(res)
meta.setdefault('needs_to_manifest', 'see SEED_NOTES.md')
json.dump(meta, open(meta_path, 'w'), indent=1)
PY
