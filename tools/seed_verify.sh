#!/bin/bash
# tools/seed_verify.sh <ID> [extra check ids...]  - confirms a seeded change in its scratch worktree /tmp/seed-<ID>,
# stores it under seeded/<ID>/ and runs the check(s) against the changed tree (VERIF_REPO = the worktree).
ID=$1; shift
W=/tmp/seed-$ID
V=/verif
mkdir -p $V/seeded/$ID
cd $W || exit 2
git diff > $V/seeded/$ID/patch.diff
cp demo.py $V/seeded/$ID/demo.py 2>/dev/null
cp SEED_NOTES.md $V/seeded/$ID/SEED_NOTES.md 2>/dev/null
suite=$(PYTHONPATH=$W /venv/bin/python -m pytest -q -p no:cacheprovider tests 2>&1 | grep -E "passed|failed" | tail -1)
PYTHONPATH=$W /venv/bin/python -W ignore demo.py > /tmp/demo-$ID-with.log 2>&1; with=$?
git stash -q
PYTHONPATH=$W /venv/bin/python -W ignore demo.py > /tmp/demo-$ID-without.log 2>&1; without=$?
git stash pop -q
echo "suite_with_change: $suite | demo with change exit=$with | demo without change exit=$without"
cd $V
res=""
for c in $ID "$@"; do
  out=$(VERIF_REPO=$W ./check $c quick 2>&1); rc=$?
  mech=$(echo "$out" | grep "mechanism=" | sed 's/ witnesses.*//; s/^ *mechanism=//' | tr '\n' ',' )
  echo "check $c quick on changed tree: exit=$rc mechanisms=$mech"
  res="$res{\"check\":\"$c\",\"tier\":\"quick\",\"exit\":$rc,\"mechanisms\":\"$mech\"},"
done
/venv/bin/python - "$ID" "$suite" "$with" "$without" "[${res%,}]" <<'PY'
import json, sys, os
ID, suite, w, wo, res = sys.argv[1:6]
meta_path = f'/verif/seeded/{ID}/meta.json'
meta = {}
if os.path.exists(meta_path):
    meta = json.load(open(meta_path))
meta.update({'property': ID, 'source': 'sub-agent given only the property text and a scratch worktree',
             'confirmed': {'suite_with_change': suite, 'demo_exit_with_change': int(w), 'demo_exit_without_change': int(wo)},
             'how_run': f'checks run with VERIF_REPO=/tmp/seed-{ID} (the scratch worktree with the change applied)',
             'check_results': json.loads(res)})
notes = f'/verif/seeded/{ID}/SEED_NOTES.md'
if os.path.exists(notes) and 'needs_to_manifest' not in meta:
    meta['needs_to_manifest'] = 'see SEED_NOTES.md'
json.dump(meta, open(meta_path, 'w'), indent=1)
PY
